#!/bin/bash
# build_repo.sh <dir>: builds <dir>/worker (overlay-injected, tag verif) and <dir>/gosk (plain CLI)
# from /repo's CURRENT working tree. /repo is not written to.
set -e
. "$(dirname "$0")/env.sh"
W="$1"
mkdir -p "$W"
build_worker() { # $1 = with dumpers (1/0)
  {
    echo '{"Replace":{'
    echo "\"$REPO_DIR/cmd/verifworker/main.go\":\"$VERIF_DIR/driver/worker_main.go\""
    if [ "$1" = 1 ] && [ -f "$VERIF_DIR/driver/worker_digest.go" ]; then
      echo ",\"$REPO_DIR/cmd/verifworker/digest.go\":\"$VERIF_DIR/driver/worker_digest.go\""
      for f in "$VERIF_DIR"/driver/dump_*.go; do
        [ -f "$f" ] || continue
        pkg=$(head -1 "$f" | sed -n 's#^// *inject: *##p')
        [ -n "$pkg" ] && echo ",\"$REPO_DIR/$pkg/zz_verif_$(basename "$f")\":\"$f\""
      done
    else
      echo ",\"$REPO_DIR/cmd/verifworker/digest.go\":\"$VERIF_DIR/driver/worker_digest_stub.go\""
    fi
    echo '}}'
  } > "$W/overlay.json"
  (cd "$REPO_DIR" && go build -tags verif -overlay "$W/overlay.json" -o "$W/worker" ./cmd/verifworker)
}
if ! build_worker 1 2>"$W/build1.err"; then
  echo "note: worker with state dumpers did not build; falling back to plain worker" >&2
  cat "$W/build1.err" >&2 | head -5
  build_worker 0
  echo nodumpers > "$W/worker.flags"
fi
(cd "$REPO_DIR" && go build -o "$W/gosk" ./cmd/gosk)
echo "$W"
