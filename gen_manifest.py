#!/usr/bin/env python3
# Regenerates MANIFEST.json from the table below (kept in one place so it stays valid).
import json, subprocess
claimed = {
 "C19": ("exhaustive enumeration of argument vectors (length 0..3/4 over a 14-token alphabet of path situations and flags) spawned as the real command in prepared directories, against a model of the CLI contract; every Shift_JIS/UTF-8 character class in comments; CLI vs API on the program pool", "7/C19"),
 "C08": ("choice-tree DFS over code-size classes x every ordered subset of GLOBAL labels x placement x extras x naming patterns x FILE lengths; independent strict COFF reader + debug/pe", "7/C08-C09"),
 "C09": ("same exploration as C08; .text vs flat binary of the same source, symbol-table model (once each, class/section/value by sentinel-located offset, order, long names), .file record", "7/C08-C09"),
 "C10": ("explicit-state search over HISTORIES of assemble/reassemble operations on live worker processes: all length-1 and length-2 histories from a fresh process (BFS, replay on fresh workers), all ordered triples as de Bruijn windows; invariant per transition vs fresh-process reference + global-state digests", "7/C10"),
 "C07": ("choice-tree DFS over all 319 grammar mnemonics x operand lists (arity 0..3) over 15 operand kinds, undefined symbols in every operand position, file-level shapes; oracle: diagnosed, or bytes that the reference decoder reads back as the written statement", "7/C07"),
 "C13": ("choice-tree DFS over all byte strings <=2 (256-ary) and 3 (24-ary), token strings <=3/4 over 29 tokens, all single-token/line mutations of 20 programs, the C07 operand space; liveness oracle (no panic, no death, no timeout) + growth envelope on 11 scaling families", "7/C13"),
 "C11": ("choice-tree DFS over base programs x value sets x every subset of literal sites abstracted to EQU x chain depth x body form x placement; differential against the inlined program", "7/C11"),
 "C12": ("deviation-bounded choice-tree DFS (bound 1 quick, 2 thorough) over token-wise re-layouts: whitespace at every gap, comments/blank lines at every boundary, line endings, final newline; differential against the canonical layout", "7/C12"),
 "C14": ("choice-tree DFS over all ordered pairs (and triples over a sub-pool) of label-free statements and all single insertions/deletions; differential concatenation oracle", "7/C14"),
 "C15": ("choice-tree DFS over all injective renamings of up to 3 symbols into an adversarial name pool x programs x both formats; differential against neutral names, independent COFF reader", "7/C15"),
 "C06": ("choice-tree DFS over all expression trees up to 3 operators x literal set x 3 renderings x operand positions; big-integer reference evaluator", "7/C06"),
 "C16": ("choice-tree DFS over program variants x all ordered pairs of 7 ORG settings; differential relocation oracle with model-known absolute fields", "7/C16"),
 "C17": ("choice-tree DFS over directive choices {none,16,32}^3 x instruction groups x interleaved statements, and the directive at every prelude position; differential oracle against single-mode segments, label behind each group vs its real offset", "7/C17"),
 "C03": ("choice-tree DFS over statement kinds (and ordered pairs) in front of a label x uses of the label/$ x ORG x BITS; sentinel-located real offsets vs embedded values and pass-1 table; per-kind defect model", "7/C03"),
 "C04": ("choice-tree DFS over 32 branch mnemonics x every gap 0..140 (+-32768 boundary) x direction x target kind x ORG x BITS; reference decoder: cc, next+disp == real target, size", "7/C04"),
 "C02": ("choice-tree DFS over every 16/32-bit addressing shape x displacement x carrier x width x BITS; reference decoder, effective address compared as a linear form", "7/C02"),
 "C18": ("choice-tree DFS over ALU-imm/moffs/MOV-imm/PUSH-POP forms x registers x boundary immediates x BITS; length compared with the minimum over the reference encoder's valid encodings", "7/C18"),
 "C01": ("choice-tree DFS over mnemonic x operand form x every register x boundary immediates x BITS; reference x86 decoder (semantic tuple equality, facet by facet)", "7/C01"),
 "C05": ("choice-tree DFS over DB/DW/DD operand lists, RESB, ALIGNB x residue x ORG, non-emitting statements; directive reference model", "7/C05"),
}
texts = {
 "C19": "Every argument vector up to length 3 (thorough: 4) over source/destination situations (valid, missing, unparsable, empty, directory, new, existing, missing directory, /dev/full) and flags is run as the real gosk command in a freshly prepared directory - the file-system answers are enumerated like injected faults - and judged against a model of the contract (exit 0/16/17/non-zero, line:col on parse errors, output file == API bytes on success, never a partial image after a failure). Comments containing each Shift_JIS double-byte code (incl. trail bytes 5C/7C), half-width kana, 2- and 3-byte UTF-8 characters, mid-comment and directly before the newline, must not change the output.",
 "C08": "131040 COFF programs (thorough; 4680 quick) are assembled and every object is parsed by an independent strict COFF reader that bounds-checks every offset and count (header, three section headers, symbol records incl. aux, string table length and long-name offsets) and by Go's debug/pe.",
 "C09": "For the same programs: .text must be byte-identical to the flat binary of the source without [FORMAT]; each defined GLOBAL name exactly once as class-2 symbol of section 1 whose value is the sentinel-located offset of its label; long names through the string table; defined symbols in address order, undefined last; the [FILE] name in the .file aux record.",
 "C10": "Operations are assemble(program, destination state) for 22 programs x {absent, longer leftover file, shorter leftover file} and re-assemble-the-same-parsed-tree x 3 (69 operations). Every history of length 1 and 2 from a fresh process (quick: pairs over 15 operations) and, in the thorough tier, every ordered triple as a window of a de Bruijn sequence run on live workers; after every operation the output and diagnostics must equal those of the program as the only operation of a fresh process, and digests of the process-global tables and of the parsed tree must be unchanged.",
 "C07": "Every mnemonic the grammar accepts with every operand list up to arity 1 (thorough: 2, and 3 over six kinds) over 15 operand kinds is embedded between sentinels; a statement accepted without any diagnostic must have emitted bytes, and bytes the reference decoder can read must denote the written mnemonic and operands; directives must refuse operands they cannot represent; an undefined symbol in each of 34 operand positions must be diagnosed; file prefixes x unparsable first lines must not make the rest of the file disappear.",
 "C13": "Exhaustive enumeration of short byte strings, token strings, single-token and line mutations and the mnemonic x operand space, each executed on the real pipeline in a worker whose death, recovered panic or missing answer is the failure; all 21 952 EQU definition graphs over three names; 20 scaling families are measured at n = 10..10^4 (nesting families and the thorough tier: 10^5) against a 200x-per-decade envelope.",
 "C11": "Every non-empty subset of the literal sites of ten base programs (immediates, displacements, data items, RESB/ALIGNB/ORG operands, far-pointer parts, port numbers; values on both sides of encoding boundaries) is replaced by EQU names with chains of depth 1..4, three body forms and two placements; the output must be byte-identical to the inlined program. 10 800 variants, exhaustive within those bounds.",
 "C12": "Every layout that differs from the canonical one in at most 1 (thorough: 2) places - alternative whitespace at any of the token gaps, one of ten comment/blank-line variants after any statement, four before the first, CRLF/CR line endings, missing final newline - over 25 base programs covering every statement kind; bytes and error class must equal the canonical layout's. The deviation bound completed is reported.",
 "C14": "out(A;B) = out(A)||out(B) for all ordered pairs of a 128-statement pool in both modes (pairs of memory forms, and in the thorough tier all pairs, run on fresh processes; references always on fresh processes) plus all triples over a 19-statement sub-pool, and every single insertion/deletion in two 13-statement programs changes the output by exactly that statement's bytes; a one-byte statement inserted at every position of three programs that switch between [BITS 16] and [BITS 32] changes the output by exactly that byte.",
 "C15": "All injective assignments of up to three symbols into a 57-name adversarial pool (thorough; 22 quick: case twins, prefixes of each other, names containing or beginning with register names, mnemonics and reserved words) over nine programs, flat and WCOFF: flat output byte-identical to the neutral naming, COFF identical except the name fields/string table (read by an independent strict COFF reader).",
 "C06": "Every expression tree with up to 2 (thorough: 3) binary operators over a boundary literal set, in three renderings, is assembled through DD and compared with an arbitrary-precision reference evaluator; a reduced set is placed in every other operand position (DB/DW, immediates, displacements around a register term, RESB, EQU bodies and chains, ORG). Zero divisors must be diagnosed. Exhaustive within the stated bounds.",
 "C16": "For every program variant and every ordered pair of origins the second output must equal the first with the origin difference added at exactly the absolute fields (positions known from sentinels) and be identical elsewhere, including branch displacements and length; no ORG must equal ORG 0.",
 "C17": "All 125 directive assignments (none, 16, 32, and a directive overridden at once by the next line) over three segments x 18 mode-sensitive instruction groups x 7 interleaved neutral statements: the output must equal the concatenation of the segments assembled alone under the mode in force; plus the directive at each of 6 prelude positions.",
 "C03": "Every statement kind of a 151-kind catalogue (one per size class) - and in the thorough tier every ordered pair - is placed in front of a label whose real address is located by a sentinel; seven kinds of use of the label and of $ are read back from the output and compared; pass-1 size vs emitted size is compared per kind. Label drift in longer programs is excused only when it equals the sum of the listed per-kind est/emit differences (defect model). Exhaustive within the catalogue and depth.",
 "C04": "Each branch is decoded by the reference decoder at its sentinel-located position: the condition code must be the named one, address-of-next + displacement must equal the real target (label located by sentinel, or the literal number), no stray prefix, emitted length == pass-1 size. All 32 mnemonics x all gaps 0..140 forward and backward x label/numeric x 2 origins x 2 modes (thorough), plus +-32768 boundary gaps and far pointers.",
 "C02": "All 16-bit shapes and all 32-bit base x index x scale shapes (valid and invalid, incl. mixed register widths) x 14 boundary displacements x carrier instructions x widths x both modes are assembled by the real pipeline; the emitted prefix/ModRM/SIB/displacement is decoded by the reference decoder and the denoted address is compared, as a linear form modulo the address size, with the address written. Exhaustive within the stated alphabets.",
 "C18": "For every instruction of the stated space the emitted length is compared with the minimum over all valid encodings listed by an independent reference encoder (whose encodings are first verified to decode back). Exhaustive within the stated alphabets.",
 "C01": "Every cell of the stated product (all operand-less mnemonics, 9 two-operand operations x 3 widths x all register pairs, all 24 registers x boundary immediates, register/memory and memory/immediate forms, unary, shifts, segment/control moves (register and memory forms), IN/OUT, PUSH/POP, IMUL, all 256 INT vectors, both modes) is assembled by the real pipeline and the bytes are decoded by an independent reference decoder and compared with the source's meaning (operation, registers in roles, operand size, immediate modulo width, effective address, prefixes, length). Exhaustive within the stated alphabets.",
 "C05": "Every operand list up to the stated length over a 27-item boundary alphabet (and rotations up to length 64), every RESB/ALIGNB/residue/ORG combination and every non-emitting statement is assembled by the real pipeline and compared byte for byte with a directive model; the location counter is compared with the emitted length. Exhaustive within the stated bounds.",
}
notes = {
 "C19": "Trusted: the contract model (cliref, ~60 lines). /dev/full is used as a destination only (as a source it is an endless stream). Situations the property leaves undefined are spawned for crash-freedom only.",
 "C08": "Trusted: the strict COFF reader (written from the specification), debug/pe as a second reader.",
 "C09": "No known finding is left. Repaired: duplicate GLOBAL names, [FILE] names longer than 18 bytes.",
 "C10": "Map iteration order and the clock are not controlled choice points (stated in the evidence); 5 fresh CLI processes per program are an auxiliary smoke test. Global state is observed through overlay-injected read-only dumpers; if they fail to build against an edited tree the check falls back to output comparison only.",
 "C07": "Validity of x86 forms is not modelled in full: accepted statements whose bytes the reference decoder cannot read are counted (accepted_unknown_encoding) and not judged further. No known finding is left (the last one, rel32 Jcc/CALL without 66h in 16-bit code, went with the branch-relaxation repair 357686f).",
 "C13": "Byte strings are exhaustive only to length 2/3; timing oracle is an envelope, not a bound. Crashes are re-confirmed through the real CLI before being reported.",
 "C11": "Differential; the inlined program is the reference. Uses of a name before its definition are refused by gosk for every kind of EQU and are outside the space.",
 "C12": "Differential; the canonical layout is the reference. No known finding is left (first-statement labels behind blank lines/comments/indentation repaired by cd8352b).",
 "C14": "Differential; single-statement assembly under the same BITS header is the reference.",
 "C15": "Differential; names restricted to [A-Za-z0-9_] as the property's quantifier states (a dotted name breaks text/template label substitution but is outside the quantifier).",
 "C06": "Trusted: the reference evaluator (math/big), DD/DB/DW emission (C05), x86ref for immediates/displacements. Values leaving int64 are not judged.",
 "C16": "Trusted: sentinel framing, the layout of the test programs (absolute fields directly after sentinels; MOV r16,imm16 = opcode+iw).",
 "C17": "Differential: single-mode assembly is the reference (its correctness is C01's). The former finding C17-F01 (emission used the last BITS of the file) was repaired by 791856e; no known finding is left.",
 "C03": "Trusted: sentinel framing (DB path verified by C05), x86ref decoder for instruction uses, the worker's view of pass-1 SymTable/LOC. No known finding is left: branch sizing (pass 1 sized by mode, codegen emitted by distance) was repaired by 357686f; the additive defect model that went with it has an empty table.",
 "C04": "Trusted: x86ref decoder, sentinel framing. No known finding is left: the 78 cells of the former branch-sizing findings were repaired by 357686f (relaxation in pass 1, form carried to codegen); scenario interacting_branches covers growth cascades between 2-3 branches.",
 "C02": "Trusted: x86ref decoder and MemSpec linear-form comparison. Displacements that do not fit the address width are outside the model. No known finding is left: the five defects found in calculateModRM (index-only, EBP base without displacement, 16-bit registers under BITS 32, zero SIB byte, mixed register widths) were repaired.",
 "C18": "Trusted: x86ref encoder/decoder pair (26k pairs self-checked per run). Only statements that decode to the source instruction are judged.",
 "C01": "Trusted: x86ref decoder (written from the SDM opcode maps; self-checked; cross-checked against objdump where present). Statements gosk refuses with an error are not judged (DESIGN.md section 5). No known finding is left.",
 "C05": "Trusted: the directive reference model (a few lines per directive), sentinel DB lines (members of the explored space), worker = cmd/gosk pipeline (gen.Parse + frontend.Exec), re-confirmed through the real CLI for every reported failure. Known finding C05-F01: through the command, non-ASCII string operands are decoded as Shift_JIS and emitted as UTF-8 (exploration cli_strings).",
}
na = {}
def main():
    checks=[]
    for pid,(tech,ref) in sorted(claimed.items()):
        checks.append({
          "property_id": pid,
          "quick_cmd": f"./check {pid} --tier quick",
          "thorough_cmd": f"./check {pid} --tier thorough",
          "evidence_file": f"evidence/{pid}.json",
          "replay_cmd_template": f"./check {pid} --replay {{path}}",
          "engine": "verifengine",
          "level_claimed": {"category":"model_checking","text":texts[pid],"design_ref":"DESIGN.md section "+ref},
          "level_note": notes[pid],
          "technique": tech,
        })
    allp=[json.loads(l)["id"] for l in open("properties.jsonl")]
    not_app=[{"property_id":p,"reason":na.get(p,"check not built yet in this revision of /verif (work in progress; see DESIGN.md section 11)")} for p in allp if p not in claimed]
    fixes=subprocess.run(["git","-C","/repo","log","--format=%h %s"],capture_output=True,text=True).stdout.splitlines()
    m={
     "version":1,
     "setup_cmd":"./setup.sh",
     "hooks":{
       "guard":"verif",
       "enable":"go build -tags verif -overlay <generated overlay.json> ./cmd/verifworker (build_repo.sh): files from /verif/driver are injected by overlay as NEW files (cmd/verifworker/*.go, zz_verif_*.go), all carrying //go:build verif; /repo is not modified",
       "baseline_off_cmd":"cd /repo && GOFLAGS=-mod=mod GOPROXY=off GOSUMDB=off GOTOOLCHAIN=local go test -vet=off -count=1 ./...",
       "source_commits":[],
       "add_only":True
     },
     "engines":[{"name":"verifengine","path":"engine/","serves_properties":sorted(claimed),"kind_free_text":"hand-written stateless choice-tree DFS explorer (replay-based, deviation-bounded) + BFS history explorer, driving worker subprocesses that run the real gosk pipeline"}],
     "checks":checks,
     "not_applicable":not_app,
     "notes":"known_findings.jsonl holds one finding (C05-F01: non-ASCII string operands are transcoded by the command) and fixed entries. fix: commits in /repo: "+"; ".join(f for f in fixes if " fix:" in f)
    }
    json.dump(m,open("MANIFEST.json","w"),indent=1)
main()
