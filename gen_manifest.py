#!/usr/bin/env python3
# Regenerates MANIFEST.json from the table below (kept in one place so it stays valid).
import json, subprocess
claimed = {
 "C03": ("choice-tree DFS over statement kinds (and ordered pairs) in front of a label x uses of the label/$ x ORG x BITS; sentinel-located real offsets vs embedded values and pass-1 table; per-kind defect model", "7/C03"),
 "C04": ("choice-tree DFS over 32 branch mnemonics x every gap 0..140 (+-32768 boundary) x direction x target kind x ORG x BITS; reference decoder: cc, next+disp == real target, size", "7/C04"),
 "C02": ("choice-tree DFS over every 16/32-bit addressing shape x displacement x carrier x width x BITS; reference decoder, effective address compared as a linear form", "7/C02"),
 "C18": ("choice-tree DFS over ALU-imm/moffs/MOV-imm/PUSH-POP forms x registers x boundary immediates x BITS; length compared with the minimum over the reference encoder's valid encodings", "7/C18"),
 "C01": ("choice-tree DFS over mnemonic x operand form x every register x boundary immediates x BITS; reference x86 decoder (semantic tuple equality, facet by facet)", "7/C01"),
 "C05": ("choice-tree DFS over DB/DW/DD operand lists, RESB, ALIGNB x residue x ORG, non-emitting statements; directive reference model", "7/C05"),
}
texts = {
 "C03": "Every statement kind of a 121-kind catalogue (one per size class) - and in the thorough tier every ordered pair - is placed in front of a label whose real address is located by a sentinel; seven kinds of use of the label and of $ are read back from the output and compared; pass-1 size vs emitted size is compared per kind. Label drift in longer programs is excused only when it equals the sum of the listed per-kind est/emit differences (defect model). Exhaustive within the catalogue and depth.",
 "C04": "Each branch is decoded by the reference decoder at its sentinel-located position: the condition code must be the named one, address-of-next + displacement must equal the real target (label located by sentinel, or the literal number), no stray prefix, emitted length == pass-1 size. All 32 mnemonics x all gaps 0..140 forward and backward x label/numeric x 2 origins x 2 modes (thorough), plus +-32768 boundary gaps and far pointers.",
 "C02": "All 16-bit shapes and all 32-bit base x index x scale shapes (valid and invalid) x 14 boundary displacements x carrier instructions x widths x both modes are assembled by the real pipeline; the emitted prefix/ModRM/SIB/displacement is decoded by the reference decoder and the denoted address is compared, as a linear form modulo the address size, with the address written. Exhaustive within the stated alphabets.",
 "C18": "For every instruction of the stated space the emitted length is compared with the minimum over all valid encodings listed by an independent reference encoder (whose encodings are first verified to decode back). Exhaustive within the stated alphabets.",
 "C01": "Every cell of the stated product (all operand-less mnemonics, 9 two-operand operations x 3 widths x all register pairs, all 24 registers x boundary immediates, register/memory and memory/immediate forms, unary, shifts, segment/control moves, IN/OUT, PUSH/POP, IMUL, all 256 INT vectors, both modes) is assembled by the real pipeline and the bytes are decoded by an independent reference decoder and compared with the source's meaning (operation, registers in roles, operand size, immediate modulo width, effective address, prefixes, length). Exhaustive within the stated alphabets.",
 "C05": "Every operand list up to the stated length over a 27-item boundary alphabet (and rotations up to length 64), every RESB/ALIGNB/residue/ORG combination and every non-emitting statement is assembled by the real pipeline and compared byte for byte with a directive model; the location counter is compared with the emitted length. Exhaustive within the stated bounds.",
}
notes = {
 "C03": "Trusted: sentinel framing (DB path verified by C05), x86ref decoder for instruction uses, the worker's view of pass-1 SymTable/LOC. Known findings: [lab] in memory operands encodes 0; per-kind size-estimate disagreements (branches, PUSH/POP FS/GS, INT 3, MOV CRn, PUSH imm16, IMUL imm, 32-bit addressing).",
 "C04": "Trusted: x86ref decoder, sentinel framing. The branch machinery of the pinned tree is wrong in most cells outside short label-target jumps in 16-bit mode; those cells are listed as known findings by (mode, class, direction, target kind, gap) with exact deviations.",
 "C02": "Trusted: x86ref decoder and MemSpec linear-form comparison. Displacements that do not fit the address width are outside the model. Known findings: four root causes in calculateModRM (index-only, EBP base without displacement, 16-bit pairs in 32-bit mode, zero SIB byte).",
 "C18": "Trusted: x86ref encoder/decoder pair (26k pairs self-checked per run). Only statements that decode to the source instruction are judged.",
 "C01": "Trusted: x86ref decoder (written from the SDM opcode maps; self-checked; cross-checked against objdump where present). Statements gosk refuses with an error are not judged (DESIGN.md section 5). Known findings: the operand-less opcode table (pinned by a repository test).",
 "C05": "Trusted: the directive reference model (a few lines per directive), sentinel DB lines (members of the explored space), worker = cmd/gosk pipeline (gen.Parse + frontend.Exec), re-confirmed through the real CLI for every reported failure.",
}
na = {}
def main():
    checks=[]
    for pid,(tech,ref) in sorted(claimed.items()):
        checks.append({
          "property_id": pid,
          "quick_cmd": f"./check {pid} --tier quick",
          "thorough_cmd": f"./check {pid} --tier thorough",
          "evidence_file": f"evidence/{pid}.json",
          "replay_cmd_template": f"./check {pid} --replay {{path}}",
          "engine": "verifengine",
          "level_claimed": {"category":"model_checking","text":texts[pid],"design_ref":"DESIGN.md section "+ref},
          "level_note": notes[pid],
          "technique": tech,
        })
    allp=[json.loads(l)["id"] for l in open("properties.jsonl")]
    not_app=[{"property_id":p,"reason":na.get(p,"check not built yet in this revision of /verif (work in progress; see DESIGN.md section 11)")} for p in allp if p not in claimed]
    fixes=subprocess.run(["git","-C","/repo","log","--format=%h %s"],capture_output=True,text=True).stdout.splitlines()
    m={
     "version":1,
     "setup_cmd":"./setup.sh",
     "hooks":{
       "guard":"verif",
       "enable":"go build -tags verif -overlay <generated overlay.json> ./cmd/verifworker (build_repo.sh): files from /verif/driver are injected by overlay as NEW files (cmd/verifworker/*.go, zz_verif_*.go), all carrying //go:build verif; /repo is not modified",
       "baseline_off_cmd":"cd /repo && GOFLAGS=-mod=mod GOPROXY=off GOSUMDB=off GOTOOLCHAIN=local go test -vet=off -count=1 ./...",
       "source_commits":[],
       "add_only":True
     },
     "engines":[{"name":"verifengine","path":"engine/","serves_properties":sorted(claimed),"kind_free_text":"hand-written stateless choice-tree DFS explorer (replay-based, deviation-bounded) + BFS history explorer, driving worker subprocesses that run the real gosk pipeline"}],
     "checks":checks,
     "not_applicable":not_app,
     "notes":"Known findings: known_findings.jsonl. fix: commits in /repo: "+"; ".join(f for f in fixes if " fix:" in f)
    }
    json.dump(m,open("MANIFEST.json","w"),indent=1)
main()
