#!/usr/bin/env python3
# Regenerates MANIFEST.json from the table below (kept in one place so it stays valid).
import json, subprocess
claimed = {
 "C01": ("choice-tree DFS over mnemonic x operand form x every register x boundary immediates x BITS; reference x86 decoder (semantic tuple equality, facet by facet)", "7/C01"),
 "C05": ("choice-tree DFS over DB/DW/DD operand lists, RESB, ALIGNB x residue x ORG, non-emitting statements; directive reference model", "7/C05"),
}
texts = {
 "C01": "Every cell of the stated product (all operand-less mnemonics, 9 two-operand operations x 3 widths x all register pairs, all 24 registers x boundary immediates, register/memory and memory/immediate forms, unary, shifts, segment/control moves, IN/OUT, PUSH/POP, IMUL, all 256 INT vectors, both modes) is assembled by the real pipeline and the bytes are decoded by an independent reference decoder and compared with the source's meaning (operation, registers in roles, operand size, immediate modulo width, effective address, prefixes, length). Exhaustive within the stated alphabets.",
 "C05": "Every operand list up to the stated length over a 27-item boundary alphabet (and rotations up to length 64), every RESB/ALIGNB/residue/ORG combination and every non-emitting statement is assembled by the real pipeline and compared byte for byte with a directive model; the location counter is compared with the emitted length. Exhaustive within the stated bounds.",
}
notes = {
 "C01": "Trusted: x86ref decoder (written from the SDM opcode maps; self-checked; cross-checked against objdump where present). Statements gosk refuses with an error are not judged (DESIGN.md section 5). Known findings: the operand-less opcode table (pinned by a repository test).",
 "C05": "Trusted: the directive reference model (a few lines per directive), sentinel DB lines (members of the explored space), worker = cmd/gosk pipeline (gen.Parse + frontend.Exec), re-confirmed through the real CLI for every reported failure.",
}
na = {}
def main():
    checks=[]
    for pid,(tech,ref) in sorted(claimed.items()):
        checks.append({
          "property_id": pid,
          "quick_cmd": f"./check {pid} --tier quick",
          "thorough_cmd": f"./check {pid} --tier thorough",
          "evidence_file": f"evidence/{pid}.json",
          "replay_cmd_template": f"./check {pid} --replay {{path}}",
          "engine": "verifengine",
          "level_claimed": {"category":"model_checking","text":texts[pid],"design_ref":"DESIGN.md section "+ref},
          "level_note": notes[pid],
          "technique": tech,
        })
    allp=[json.loads(l)["id"] for l in open("properties.jsonl")]
    not_app=[{"property_id":p,"reason":na.get(p,"check not built yet in this revision of /verif (work in progress; see DESIGN.md section 11)")} for p in allp if p not in claimed]
    fixes=subprocess.run(["git","-C","/repo","log","--format=%h %s"],capture_output=True,text=True).stdout.splitlines()
    m={
     "version":1,
     "setup_cmd":"./setup.sh",
     "hooks":{
       "guard":"verif",
       "enable":"go build -tags verif -overlay <generated overlay.json> ./cmd/verifworker (build_repo.sh): files from /verif/driver are injected by overlay as NEW files (cmd/verifworker/*.go, zz_verif_*.go), all carrying //go:build verif; /repo is not modified",
       "baseline_off_cmd":"cd /repo && GOFLAGS=-mod=mod GOPROXY=off GOSUMDB=off GOTOOLCHAIN=local go test -vet=off -count=1 ./...",
       "source_commits":[],
       "add_only":True
     },
     "engines":[{"name":"verifengine","path":"engine/","serves_properties":sorted(claimed),"kind_free_text":"hand-written stateless choice-tree DFS explorer (replay-based, deviation-bounded) + BFS history explorer, driving worker subprocesses that run the real gosk pipeline"}],
     "checks":checks,
     "not_applicable":not_app,
     "notes":"Known findings: known_findings.jsonl. fix: commits in /repo: "+"; ".join(f for f in fixes if " fix:" in f)
    }
    json.dump(m,open("MANIFEST.json","w"),indent=1)
main()
