# sourced by check/setup.sh
export GOFLAGS=-mod=mod GOPROXY=off GOSUMDB=off GOTOOLCHAIN=local
export GOCACHE="${GOCACHE:-$HOME/.cache/go-build}"
VERIF_DIR="$(cd "$(dirname "${BASH_SOURCE[0]}")" && pwd)"
REPO_DIR="${REPO_DIR:-/repo}"
