package props

import (
	"fmt"
	"strings"
	"time"

	"verifengine/core"
)

// C13 — no input crashes or hangs the assembler.

func crashVerdict(r *core.Result, src string) core.Verdict {
	v := core.Verdict{Outcome: "terminated_normally"}
	switch {
	case r.Timeout:
		v.Outcome = "timeout"
		v.Fails = []core.Fail{{Facet: "hang", Dev: "timeout", Detail: fmt.Sprintf("no answer within the per-input limit for %q", trunc(src, 200))}}
	case r.Panic != "":
		v.Outcome = "panic"
		v.Fails = []core.Fail{{Facet: "panic", Dev: panicSig(r.Panic), Detail: fmt.Sprintf("%q -> %s", trunc(src, 200), trunc(r.Panic, 600))}}
	case r.Died && r.ExitCode == 2:
		v.Outcome = "crash"
		v.Fails = []core.Fail{{Facet: "panic", Dev: "process_died_exit_2", Detail: fmt.Sprintf("%q -> %s", trunc(src, 200), trunc(r.Stderr, 400))}}
	case r.ParseErr != "":
		v.Outcome = "parse_error"
	case r.Died:
		v.Outcome = fmt.Sprintf("exit_%d", r.ExitCode)
	case len(core.ErrLines(r)) > 0:
		v.Outcome = "diagnosed"
	case len(r.Out) > 0:
		v.Outcome = "output"
		v.Nontrivial = true
	}
	return v
}

func trunc(s string, n int) string {
	if len(s) > n {
		return s[:n] + "..."
	}
	return s
}

// panicSig: a stable signature of a panic (message without addresses + innermost gosk frame).
func panicSig(p string) string {
	lines := strings.Split(p, "\n")
	msg := lines[0]
	if i := strings.Index(msg, "0x"); i > 0 {
		msg = msg[:i]
	}
	if len(msg) > 90 {
		msg = msg[:90]
	}
	frame := ""
	for _, l := range lines[1:] {
		l = strings.TrimSpace(l)
		if strings.HasPrefix(l, "github.com/HobbyOSs/gosk/") && !strings.Contains(l, "verifworker") {
			frame = l
			if i := strings.Index(frame, "("); i > 0 {
				frame = frame[:i]
			}
			frame = strings.TrimPrefix(frame, "github.com/HobbyOSs/gosk/")
			break
		}
	}
	return msg + " @" + frame
}

var c13Bytes24 = []byte{'\n', ' ', '\t', 'A', 'X', 'M', '0', '9', 'x', ',', '[', ']', '+', '-', '*', '/', '(', ')', ':', '"', '\'', ';', '$', '{'}

var c13Tokens = []string{"MOV", "DB", "JMP", "INT", "RESB", "ALIGNB", "ORG", "EQU", "GLOBAL", "AX", "[", "]", "+", "-", "*", "/", "(", ")", ",", ":", "1", "0x10",
	"99999999999999999999", "\"s\"", "lab", "$", "\n", "[BITS", "{{."}

var c13Valid = []string{
	"\tMOV AX,1\n", "\tMOV AX,[BX+4]\n", "\tDB 1,2,\"ab\"\n", "lab:\n\tJMP lab\n", "X EQU 5\n\tDB X\n", "\tORG 0x7c00\n\tRESB 0x10-$\n", "\tINT 0x10\n", "\tJMP DWORD 2*8:0x1b\n",
	"[BITS 32]\n\tMOV EAX,[EBX+ECX*4+8]\n", "\tALIGNB 16\n", "\tMOV BYTE [0x0ff0],8\n", "\tGLOBAL lab\nlab:\n\tRET\n", "\tPUSH 1\n\tPOP AX\n", "\tIN AL,0x60\n\tOUT DX,AL\n",
	"\tADD CX,(1+2)*3\n", "\tLGDT [lab]\nlab:\n\tDW 0\n", "[FORMAT \"WCOFF\"]\n[BITS 32]\n\tGLOBAL f\n[SECTION .text]\nf:\n\tRET\n", "\tIMUL ECX,4608\n", "\tSHL AX,1\n", "\tCALL lab\nlab:\n\tRET\n",
}

func c13SplitTokens(src string) []string {
	var toks []string
	cur := ""
	flush := func() {
		if cur != "" {
			toks = append(toks, cur)
			cur = ""
		}
	}
	for _, ch := range src {
		switch {
		case strings.ContainsRune(" \t", ch):
			flush()
			toks = append(toks, string(ch))
		case strings.ContainsRune(",[]+-*/():\n", ch):
			flush()
			toks = append(toks, string(ch))
		default:
			cur += string(ch)
		}
	}
	flush()
	return toks
}

func c13Scenarios(tier string) []*core.Scenario {
	thorough := tier == "thorough"
	var scs []*core.Scenario
	one := func(name, key string, src string, f map[string]string) *core.Case {
		return &core.Case{Key: key, Feat: f, Srcs: []string{src}, Judge: func(rs []*core.Result) core.Verdict { return crashVerdict(rs[0], src) }}
	}
	// branch relaxation must settle: the programs of C04's relaxation_edge_cases (an ALIGNB behind a growing branch absorbs
	// or amplifies the shift, so an implementation that re-chooses forms from scratch can alternate for ever), judged on
	// termination and crashes only
	{
		edges := c04RelaxEdges()
		scs = append(scs, &core.Scenario{Name: "relaxation_termination", Bound: -1,
			Rule:   "the programs of C04's relaxation_edge_cases under the liveness oracle: the assembler answers (no timeout, no panic, no death)",
			Bounds: edges.Bounds,
			Build: func(c *core.Chooser) *core.Case {
				cs := edges.Build(c)
				if cs == nil {
					return nil
				}
				src := cs.Srcs[0]
				cs.Judge = func(rs []*core.Result) core.Verdict { return crashVerdict(rs[0], src) }
				return cs
			}})
	}
	scs = append(scs, &core.Scenario{Name: "bytes_le2", Bound: -1,
		Rule:   "ALL byte strings of length 0, 1 and 2 over the full 256-value alphabet; oracle: the assembler terminates without panic/fatal error/timeout; non-trivial = produced output bytes",
		Bounds: map[string]any{"alphabet": 256, "max_len": 2},
		Build: func(c *core.Chooser) *core.Case {
			n := c.Pick("len", 3)
			b := make([]byte, n)
			for i := range b {
				b[i] = byte(c.Pick(fmt.Sprintf("b%d", i), 256))
			}
			return one("bytes", fmt.Sprintf("%q", b), string(b), feat("len", fmt.Sprint(n)))
		}})
	scs = append(scs, &core.Scenario{Name: "bytes_3_over_24", Bound: -1,
		Rule:   "all byte strings of length 3 over 24 structurally significant bytes",
		Bounds: map[string]any{"alphabet": string(c13Bytes24)},
		Build: func(c *core.Chooser) *core.Case {
			b := make([]byte, 3)
			for i := range b {
				b[i] = c13Bytes24[c.Pick(fmt.Sprintf("b%d", i), len(c13Bytes24))]
			}
			return one("bytes3", fmt.Sprintf("%q", b), string(b), feat("len", "3"))
		}})
	maxTok := 3
	if thorough {
		maxTok = 4
	}
	scs = append(scs, &core.Scenario{Name: "token_strings", Bound: -1,
		Rule:   fmt.Sprintf("all token strings of length 1..%d over a 29-token alphabet (mnemonics, registers, brackets, operators, numbers incl. one beyond 64 bits, string, label, $, newline, '[BITS', '{{.'), tokens joined by one space and terminated by a newline", maxTok),
		Bounds: map[string]any{"tokens": c13Tokens, "max_len": maxTok},
		Build: func(c *core.Chooser) *core.Case {
			n := 1 + c.Pick("len", maxTok)
			var ts []string
			for i := 0; i < n; i++ {
				ts = append(ts, c13Tokens[c.Pick(fmt.Sprintf("t%d", i), len(c13Tokens))])
			}
			src := "\t" + strings.Join(ts, " ") + "\n"
			return one("tokens", fmt.Sprintf("%q", src), src, feat("len", fmt.Sprint(n), "t0", ts[0]))
		}})
	repl := []string{"", "AX", "[", "]", "0x", "99999999999999999999", "-", ",", ":", "\"", "lab", "$", "{{.x}}", "EQU", "(", "BYTE", "FAR"}
	scs = append(scs, &core.Scenario{Name: "token_mutations", Bound: -1,
		Rule:   "every single-token deletion, duplication and replacement (17 replacement tokens) and every line deletion/duplication of 20 valid programs",
		Bounds: map[string]any{"programs": len(c13Valid), "replacements": repl},
		Build: func(c *core.Chooser) *core.Case {
			pi := c.Pick("prog", len(c13Valid))
			toks := c13SplitTokens(c13Valid[pi])
			op := c.Pick("op", 4) // 0 replace/delete token, 1 duplicate token, 2 delete line, 3 duplicate line
			var src string
			switch op {
			case 0:
				ti := c.Pick("tok", len(toks))
				r := repl[c.Pick("repl", len(repl))]
				nt := append(append(append([]string{}, toks[:ti]...), r), toks[ti+1:]...)
				src = strings.Join(nt, "")
			case 1:
				ti := c.Pick("tok", len(toks))
				nt := append(append(append([]string{}, toks[:ti+1]...), toks[ti]), toks[ti+1:]...)
				src = strings.Join(nt, "")
			default:
				lines := strings.SplitAfter(c13Valid[pi], "\n")
				li := c.Pick("line", len(lines))
				if op == 2 {
					src = strings.Join(append(append([]string{}, lines[:li]...), lines[li+1:]...), "")
				} else {
					src = strings.Join(append(append(append([]string{}, lines[:li+1]...), lines[li]), lines[li+1:]...), "")
				}
			}
			return one("mut", fmt.Sprintf("%q", src), src, feat("prog", fmt.Sprint(pi), "op", fmt.Sprint(op)))
		}})
	// ill-formed / unusual operand texts in every statement template
	scs = append(scs, &core.Scenario{Name: "operand_zoo", Bound: -1,
		Rule:   "every statement template (an operand position of each supported statement) x every text of an operand zoo (identifiers with $ . _ {{ }}, reserved words, unknown registers, unbalanced or odd brackets/parentheses/quotes, dangling operators, huge numbers, segment forms)",
		Bounds: map[string]any{"templates": len(c13Templates), "operand_texts": len(c13Zoo)},
		Build: func(c *core.Chooser) *core.Case {
			t := c13Templates[c.Pick("template", len(c13Templates))]
			z := c13Zoo[c.Pick("operand", len(c13Zoo))]
			src := strings.ReplaceAll(t, "{}", z)
			if !strings.HasSuffix(src, "\n") {
				src += "\n"
			}
			if !strings.Contains(t, "{}:") && !strings.HasPrefix(t, "{} EQU") && !strings.HasPrefix(t, "X EQU") && !strings.HasPrefix(t, "[") {
				src = "\t" + src
			}
			src = "pre:\n" + src
			return one("zoo", fmt.Sprintf("%q", src), src, feat("template", t, "operand", z))
		}})
	// EQU definition graphs: every assignment of a body form to three names, then every name used
	bodies := c13EquBodies()
	scs = append(scs, &core.Scenario{Name: "equ_graphs", Bound: -1,
		Rule:   "all EQU definition graphs over three names (spelled A, B, C or .a, cfg.b, c_1): each of A, B, C gets a body from {1} + {X, X+1, X*2, 2*X, X-3, (X+1)*2, X+Y: X, Y in {A,B,C}} (self-references and cycles of every shape through arithmetic included), followed by uses of all three names as immediate, data item and displacement; liveness oracle",
		Bounds: map[string]any{"names": 3, "body_forms": len(bodies)},
		Build: func(c *core.Chooser) *core.Case {
			var sb strings.Builder
			var key []string
			naming := c.Pick("naming", 2) // plain names, or names with dots/lower case/underscore (".a", "cfg.b", "c_1")
			ren := strings.NewReplacer("A", ".a", "B", "cfg.b", "C", "c_1")
			for _, n := range []string{"A", "B", "C"} {
				b := bodies[c.Pick("body_"+n, len(bodies))]
				key = append(key, b)
				fmt.Fprintf(&sb, "%s EQU %s\n", n, b)
			}
			sb.WriteString("\tMOV AX,C\n\tDB A,B\n\tMOV CX,[BX+B]\n\tDW C+A\n")
			src := sb.String()
			k := strings.Join(key, " | ")
			if naming == 1 {
				src = ren.Replace(src)
				src = strings.ReplaceAll(src, "MOV .aX", "MOV AX") // the register is not a name
				src = strings.ReplaceAll(src, "MOV c_1X", "MOV CX")
				src = strings.ReplaceAll(src, "[cfg.bX+", "[BX+")
				src = strings.ReplaceAll(src, "Dcfg.b ", "DB ")
				k += " (dotted names)"
			}
			return one("equ", k, src, feat("a", key[0], "b", key[1], "c", key[2], "naming", fmt.Sprint(naming)))
		}})
	// C07's operand space under the liveness oracle
	ar := 2
	kinds := c07Kinds
	if !thorough {
		kinds = []opKind{c07Kinds[0], c07Kinds[1], c07Kinds[2], c07Kinds[3], c07Kinds[5], c07Kinds[7], c07Kinds[8], c07Kinds[9], c07Kinds[12], c07Kinds[13], c07Kinds[14]}
		ar = 1
	}
	scs = append(scs, &core.Scenario{Name: "mnemonic_operand_space", Bound: -1,
		Rule:   fmt.Sprintf("all 319 grammar mnemonics x operand lists of arity 0..%d over %d operand kinds (the space of C07) under the liveness oracle", ar, len(kinds)),
		Bounds: map[string]any{"mnemonics": len(grammarMnemonics), "max_arity": ar, "kinds": len(kinds)},
		Build: func(c *core.Chooser) *core.Case {
			mn := grammarMnemonics[c.Pick("mn", len(grammarMnemonics))]
			n := c.Pick("arity", ar+1)
			var ts []string
			for i := 0; i < n; i++ {
				ts = append(ts, kinds[c.Pick(fmt.Sprintf("k%d", i), len(kinds))].text)
			}
			if strings.HasPrefix(mn, "RES") && n > 0 && ts[0] == "0x12345678" {
				return nil // legitimately writes 305 MB
			}
			src := "pre:\n\t" + mn + " " + strings.Join(ts, ",") + "\n"
			return one("mnop", strings.TrimSpace(mn+" "+strings.Join(ts, ",")), src, feat("mn", mn, "arity", fmt.Sprint(n)))
		}})
	return scs
}

func c13EquBodies() []string {
	out := []string{"1"}
	ns := []string{"A", "B", "C"}
	for _, x := range ns {
		out = append(out, x, x+"+1", x+"*2", "2*"+x, x+"-3", "("+x+"+1)*2")
	}
	if true {
		for _, x := range ns {
			for _, y := range ns {
				out = append(out, x+"+"+y)
			}
		}
	}
	return out
}

var c13Templates = []string{"A EQU {}\n\tMOV AX,A", "A EQU B\nB EQU {}\n\tDB A", "A EQU {}+1\n\tDW A", "MOV AX,{}", "MOV {},AX", "MOV EAX,{}", "JMP {}", "JE {}", "CALL {}", "DB {}", "DW {}", "DD {}", "RESB {}", "INT {}", "PUSH {}", "POP {}", "IN AL,{}", "OUT {},AL",
	"ADD CX,{}", "CMP {},1", "LGDT {}", "{} EQU 1", "X EQU {}", "ORG {}", "ALIGNB {}", "SHL AX,{}", "IMUL CX,{}", "GLOBAL {}", "EXTERN {}", "[BITS {}]", "[FORMAT {}]", "[FILE {}]", "[SECTION {}]", "{}:",
	"JMP DWORD {}:0", "JMP DWORD 8:{}", "MOV AX,[{}]", "MOV BYTE [{}],1", "MOV AX,[BX+{}]", "NOT {}", "RET {}", "HLT {}", "{}", "{} AX", "MOV AX,1,{}"}

var c13Zoo = []string{"$x", "x$y", "$", "$$", "_", "__", "a.b", ".x", "x.", "..", "{{.x}}", "{{x", "}}", "x{{.y}}", "{{.pre}}", "{{", "{{.}}", "{{template}}", "0x", "0xg", "1a", "a-", "EAXX", "AXE", "BYTE", "WORD", "DWORD",
	"SHORT", "FAR", "NEAR", "PTR", "DWORD PTR", "ST0", "MM0", "XMM0", "CR8", "CR1", "DR0", "TR6", "ES:", ":ES", "ES:BX", "ES:[BX]", "1:2:3", "[", "]", "[]", "[[BX]]", "[BX", "BX]", "[BX+]", "[+BX]",
	"[BX++SI]", "[BX*2]", "[EAX*3]", "[EAX*EBX]", "[ESP*2]", "[1+2", "[BX+SI+DI]", "[AX+BX+CX+DX]", "(1", "1)", "()", "(())", "\"\"", "\"a", "'a'", "'ab", "''", "-", "--1", "---1", "+1", "1+", "*", "1//2", "1 2", "1,,2", ",", ",1",
	"0x100000000", "0x200000000", "0x80000000", "0xffffffff", "4294967296", "-4294967296", "0x10000", "65536", "-1", "0", "99999999999999999999", "0xffffffffffffffffff", "-99999999999999999999", "0x7fffffffffffffff", "-9223372036854775808", "1/0", "1%0", "(1-1)*(2/0)", "A", "B", "A+1", "(A)", "pre", "pre+1", "pre-pre", "pre*2", "$+1", "$-$", "EQU", "GLOBAL", "DB", "MOV", "\t", " ", ";", "#", "\\", "@", "~", "!", "?", "`", "\x00", "\x7f", "\xff"}

type scaleFamily struct {
	name string
	gen  func(n int) string
}

// largest n run for a family (absent = the tier's largest)
var c13FamilyMax = map[string]int{"equ_diamond_label": 1000, "equ_diamond_product": 1000}

var c13Families = []scaleFamily{
	{"nested_parens", func(n int) string { return "\tDD " + strings.Repeat("(", n) + "1" + strings.Repeat(")", n) + "\n" }},
	{"sum_chain", func(n int) string { return "\tDD 1" + strings.Repeat("+1", n) + "\n" }},
	{"product_chain", func(n int) string { return "\tDD 1" + strings.Repeat("*1", n) + "\n" }},
	{"db_list", func(n int) string { return "\tDB 1" + strings.Repeat(",1", n) + "\n" }},
	{"statements", func(n int) string { return strings.Repeat("\tMOV AX,1\n", n) }},
	{"labels", func(n int) string {
		var sb strings.Builder
		for i := 0; i < n; i++ {
			fmt.Fprintf(&sb, "l%d:\n\tDB 1\n", i)
		}
		return sb.String()
	}},
	{"equ_chain", func(n int) string {
		var sb strings.Builder
		sb.WriteString("e0 EQU 1\n")
		for i := 1; i < n; i++ {
			fmt.Fprintf(&sb, "e%d EQU e%d+1\n", i, i-1)
		}
		fmt.Fprintf(&sb, "\tDD e%d\n", n-1)
		return sb.String()
	}},
	{"string", func(n int) string { return "\tDB \"" + strings.Repeat("a", n) + "\"\n" }},
	{"comment", func(n int) string { return "\tNOP ; " + strings.Repeat("c", n) + "\n" }},
	{"identifier", func(n int) string { return strings.Repeat("i", n) + ":\n\tJMP " + strings.Repeat("i", n) + "\n" }},
	{"nested_parens_label_imm", func(n int) string {
		return "fin:\n\tMOV AX," + strings.Repeat("(", n) + "fin" + strings.Repeat(")", n) + "\n"
	}},
	{"nested_parens_label_jmp", func(n int) string {
		return "fin:\n\tJMP " + strings.Repeat("(", n) + "fin" + strings.Repeat(")", n) + "\n"
	}},
	{"nested_parens_mem", func(n int) string {
		return "\tMOV AX,[BX+" + strings.Repeat("(", n) + "1" + strings.Repeat(")", n) + "]\n"
	}},
	// deep nesting behind lines that a pre-scan of the raw text could mis-read (quotes and brackets in comments,
	// a quote as character literal), and deep nesting that is only data (inside a string, inside a comment)
	{"nested_parens_after_quote_comment", func(n int) string {
		return "; 3.5\" floppy (boot\n\tDB '\"'\n\tDD " + strings.Repeat("(", n) + "1" + strings.Repeat(")", n) + "\n"
	}},
	{"nested_parens_in_string", func(n int) string { return "\tDB \"" + strings.Repeat("(", n) + "\"\n\tDB 1\n" }},
	{"nested_parens_in_comment", func(n int) string { return "\tDB 1 ; " + strings.Repeat("(", n) + "\n\tDB 2\n" }},
	{"nested_brackets", func(n int) string { return "\tMOV AX," + strings.Repeat("[", n) + "BX" + strings.Repeat("]", n) + "\n" }},
	{"unary_minus_chain", func(n int) string { return "\tDD " + strings.Repeat("-", n) + "1\n" }},
	// object-file paths: sizes that end up in fixed-width COFF fields
	{"coff_file_name", func(n int) string {
		return "[FORMAT \"WCOFF\"]\n[BITS 32]\n[FILE \"" + strings.Repeat("f", n) + ".nas\"]\n[SECTION .text]\n\tRET\n"
	}},
	{"coff_global_name", func(n int) string {
		nm := "_" + strings.Repeat("g", n)
		return "[FORMAT \"WCOFF\"]\n[BITS 32]\n\tGLOBAL " + nm + "\n[SECTION .text]\n" + nm + ":\n\tRET\n"
	}},
	{"coff_globals", func(n int) string {
		var sb strings.Builder
		sb.WriteString("[FORMAT \"WCOFF\"]\n[BITS 32]\n")
		for i := 0; i < n; i++ {
			fmt.Fprintf(&sb, "\tGLOBAL _sym_number_%d\n", i)
		}
		sb.WriteString("[SECTION .text]\n")
		for i := 0; i < n; i++ {
			fmt.Fprintf(&sb, "_sym_number_%d:\n\tRET\n", i)
		}
		return sb.String()
	}},
	// definitions that mention the previous name twice: 2^n evaluations unless a name is expanded once per expression
	{"equ_diamond_label", func(n int) string {
		var sb strings.Builder
		sb.WriteString("A0 EQU L\n")
		for i := 1; i <= n; i++ {
			fmt.Fprintf(&sb, "A%d EQU A%d+A%d\n", i, i-1, i-1)
		}
		fmt.Fprintf(&sb, "L:\n\tMOV AX,A%d\n", n)
		return sb.String()
	}},
	{"equ_diamond_product", func(n int) string {
		var sb strings.Builder
		sb.WriteString("A0 EQU L\n")
		for i := 1; i <= n; i++ {
			fmt.Fprintf(&sb, "A%d EQU A%d*2+(A%d-1)\n", i, i-1, i-1)
		}
		fmt.Fprintf(&sb, "L:\n\tDW A%d\n\tMOV AX,[A%d]\n", n, n)
		return sb.String()
	}},
	// branch sizing: a chain in which every jump falls out of rel8 range only once the next one has grown
	// (worst case for an iterative relaxation), and many independent far jumps
	{"branch_cascade", func(n int) string {
		var sb strings.Builder
		sb.WriteString("\tJMP L0\n")
		for i := 0; i < n; i++ {
			fmt.Fprintf(&sb, "\tRESB 125\n\tJNZ L%d\nL%d:\n", i+1, i)
		}
		fmt.Fprintf(&sb, "\tRESB 200\nL%d:\n\tHLT\n", n)
		return sb.String()
	}},
	{"branch_cascade_back", func(n int) string {
		var sb strings.Builder
		sb.WriteString("L0:\n\tRESB 200\n")
		for i := 0; i < n; i++ {
			fmt.Fprintf(&sb, "L%d:\n\tJMP L%d\n\tRESB 122\n", i+1, i)
		}
		fmt.Fprintf(&sb, "\tJMP L%d\n", n)
		return sb.String()
	}},
	{"branches_far", func(n int) string {
		var sb strings.Builder
		for i := 0; i < n; i++ {
			sb.WriteString("\tJE far\n\tCALL far\n")
		}
		sb.WriteString("\tRESB 300\nfar:\n\tRET\n")
		return sb.String()
	}},
	{"equ_uses", func(n int) string { return "K EQU 7\n" + strings.Repeat("\tDB K*2,K\n", n) }},
	{"mem_sum", func(n int) string { return "\tMOV AX,[BX+1" + strings.Repeat("+1", n) + "]\n" }},
}

func c13Scaling(r *core.Run, tier string) {
	t0 := time.Now()
	sizes := []int{10, 100, 1000, 10000}
	if tier == "thorough" {
		sizes = append(sizes, 100000)
	}
	limit := 120 * time.Second
	var cases, states int64
	type row struct {
		Family string    `json:"family"`
		N      []int     `json:"n"`
		Secs   []float64 `json:"seconds"`
		Note   string    `json:"note,omitempty"`
	}
	var table []row
	for _, f := range c13Families {
		rw := row{Family: f.name}
		prev := 0.0
		fsizes := sizes
		if tier != "thorough" && strings.HasPrefix(f.name, "nested_") {
			// the nesting families go to 10^5 in the quick tier as well: that is where a recursive parser dies, and it
			// costs nothing while the nesting guard refuses the input up front
			fsizes = append(append([]int{}, sizes...), 100000)
		}
		for _, n := range fsizes {
			if mx := c13FamilyMax[f.name]; mx > 0 && n > mx {
				// a chain of n unreduced definitions costs O(n) per definition (each one walks the chain below it):
				// quadratic, i.e. within the property, but minutes at 10^4 - the exponential the family is about shows at 100
				rw.Note = fmt.Sprintf("capped at n=%d (quadratic family)", mx)
				break
			}
			src := f.gen(n)
			best := -1.0
			var last *core.Result
			reps := 3
			if n >= 10000 {
				reps = 1
			}
			for k := 0; k < reps; k++ {
				lim := limit
				if n >= 100000 {
					lim = 900 * time.Second // linear behaviour at ~2 ms per statement needs minutes here
				}
				res := r.Cfg.Pool.ExecTimed(src, lim)
				cases++
				last = res
				if res.Timeout || res.Died {
					break
				}
				s := float64(res.Micros) / 1e6
				if best < 0 || s < best {
					best = s
				}
			}
			states++
			feat := map[string]string{"family": f.name, "n": fmt.Sprint(n)}
			if last.Timeout {
				r.AddFail("scaling", fmt.Sprintf("%s n=%d", f.name, n), feat, nil, core.Fail{Facet: "hang", Dev: "timeout", Detail: fmt.Sprintf("no answer within %v", limit)})
				rw.Note = fmt.Sprintf("timeout at n=%d", n)
				break
			}
			if last.Panic != "" || (last.Died && last.ExitCode == 2) {
				sig := "process_died_exit_2"
				if last.Panic != "" {
					sig = panicSig(last.Panic)
				}
				if strings.Contains(last.Stderr+last.Panic, "stack overflow") || strings.Contains(last.Stderr+last.Panic, "goroutine stack exceeds") {
					sig = "stack_overflow"
				}
				r.AddFail("scaling", fmt.Sprintf("%s n=%d", f.name, n), feat, nil, core.Fail{Facet: "panic", Dev: sig, Detail: trunc(last.Panic+last.Stderr, 400)})
				rw.Note = fmt.Sprintf("crash at n=%d", n)
				break
			}
			rw.N = append(rw.N, n)
			rw.Secs = append(rw.Secs, best)
			if prev > 0 {
				base := prev
				if base < 0.05 {
					base = 0.05
				}
				if best > 200*base {
					r.AddFail("scaling", fmt.Sprintf("%s n=%d", f.name, n), feat, nil, core.Fail{Facet: "growth", Dev: "super_polynomial_envelope",
						Detail: fmt.Sprintf("t(%d)=%.3fs > 200 x max(t(%d)=%.3fs, 50ms)", n, best, n/10, prev)})
				}
			}
			prev = best
			r.AddNT("scaling|" + f.name + fmt.Sprint(n))
		}
		table = append(table, rw)
	}
	r.Extra["scaling_table"] = table
	r.AddCustom("scaling", fmt.Sprint(len(c13Families))+" input families scaled n = 10, 10^2, 10^3, 10^4 (thorough: 10^5): no crash, no timeout (120 s), and t(10n) <= 200 x max(t(n), 50 ms) (allows cubic growth, rejects exponential); minimum of 3 repetitions below 10^4",
		map[string]any{"families": len(c13Families), "sizes": sizes}, states+1, states, cases, states, 1, true, time.Since(t0).Seconds())
}

func init() {
	register(&Property{
		ID:        "C13",
		Scenarios: c13Scenarios,
		Custom:    func(r *core.Run, tier string) { c13CLIInputs(r, tier); c13Scaling(r, tier) },
		Assumptions: []string{
			"a crash is: a Go panic recovered by the worker around gen.Parse/frontend.Exec, a worker process that dies (re-run through the real CLI: exit status 2 with panic:/fatal error:), or no answer within the per-input limit; exits through os.Exit with a GOSK message are normal terminations",
			"'at most polynomially' is checked as a growth envelope t(10n) <= 200*max(t(n),50ms) up to 10^4 (thorough 10^5) tokens; wall-clock noise is far below the 200x allowance",
			"arbitrary byte strings are covered exhaustively only up to length 2 (256-ary) and 3 (24-ary); beyond that by token strings and mutations",
		},
	})
}
