package props

import (
	"fmt"
	"strings"

	"verifengine/core"
	"verifengine/x86ref"
)

// Shared helpers to build instruction statements (source text + meaning) and judge them.

var immB13 = []int64{0, 1, 0x7f, 0x80, 0xff, 0x100, 0x7fff, 0x8000, 0xffff, 0x10000, 0x7fffffff, 0x80000000, 0xffffffff}

func immB25() []int64 {
	out := append([]int64(nil), immB13...)
	for _, v := range immB13[1:] {
		out = append(out, -v)
	}
	return out
}

func immText(v int64) string {
	if v < 0 {
		return fmt.Sprintf("%d", v) // the grammar has no negative hexadecimal literal
	}
	if v < 10 {
		return fmt.Sprintf("%d", v)
	}
	return fmt.Sprintf("0x%x", v)
}

// immClass: magnitude class of an immediate as written.
func immClass(v int64) string {
	switch {
	case v == 0:
		return "0"
	case v > 0 && v <= 0x7f:
		return "p7"
	case v > 0 && v <= 0xff:
		return "p8"
	case v > 0 && v <= 0x7fff:
		return "p15"
	case v > 0 && v <= 0xffff:
		return "p16"
	case v > 0 && v <= 0x7fffffff:
		return "p31"
	case v > 0 && v <= 0xffffffff:
		return "p32"
	case v > 0:
		return "p33+"
	case v >= -0x80:
		return "n7"
	case v >= -0x8000:
		return "n15"
	case v >= -0x80000000:
		return "n31"
	}
	return "n32+"
}

type memShape struct {
	text string
	spec x86ref.MemSpec
}

func wreg(name string) x86ref.WantOp {
	_, size, cls := x86ref.RegInfo(name)
	kind := map[string]string{"r": "reg", "s": "sreg", "c": "creg"}[cls]
	return x86ref.WantOp{Kind: kind, Reg: name, Size: size}
}
func wimm(v int64, size int) x86ref.WantOp { return x86ref.WantOp{Kind: "imm", Imm: v, Size: size} }
func wmem(m memShape, size int) x86ref.WantOp {
	return x86ref.WantOp{Kind: "mem", Mem: m.spec, Size: size}
}

func sizeKw(bits int) string { return map[int]string{8: "BYTE", 16: "WORD", 32: "DWORD"}[bits] }

func regsOf(bits int) []string {
	switch bits {
	case 8:
		return x86ref.Reg8
	case 16:
		return x86ref.Reg16
	}
	return x86ref.Reg32
}

func bitsHeader(mode int) string { return fmt.Sprintf("[BITS %d]\n", mode) }

// judgeInsn: the single-statement oracle shared by C01/C02/C18.
// rs[0] = program with the statement, rs[1] = baseline program without it.
func judgeInsn(rs []*core.Result, mode int, w x86ref.Want, extra func(out []byte, got x86ref.Inst) []core.Fail) core.Verdict {
	r, base := rs[0], rs[1]
	v := core.Verdict{}
	if core.ReportsError(r, base) {
		v.Outcome = "diagnosed"
		if len(r.Out) > len(base.Out) {
			v.Outcome = "diagnosed_but_emitted"
		}
		return v
	}
	out := r.Out
	diffs, got := x86ref.Compare(out, mode, w)
	v.Outcome = "ok"
	v.Nontrivial = len(out) > 0
	v.NTKey = fmt.Sprintf("%d:%x", mode, out)
	for _, d := range diffs {
		v.Fails = append(v.Fails, core.Fail{Facet: d.Facet, Dev: d.Dev, Detail: d.Info})
		v.Outcome = "mismatch"
	}
	if extra != nil && len(diffs) == 0 {
		v.Fails = append(v.Fails, extra(out, got)...)
	}
	return v
}

func insnCase(mode int, stmt string, w x86ref.Want, f map[string]string, extra func(out []byte, got x86ref.Inst) []core.Fail) *core.Case {
	f["mode"] = fmt.Sprint(mode)
	src := bitsHeader(mode) + "\t" + stmt + "\n"
	return &core.Case{
		Key:   fmt.Sprintf("BITS %d|%s", mode, stmt),
		Feat:  f,
		Srcs:  []string{src, bitsHeader(mode)},
		Judge: func(rs []*core.Result) core.Verdict { return judgeInsn(rs, mode, w, extra) },
	}
}

func upper(s string) string { return strings.ToUpper(s) }
