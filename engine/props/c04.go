package props

import (
	"fmt"
	"strings"

	"verifengine/core"
	"verifengine/x86ref"
)

// C04 — relative branches land exactly on their targets.

var ccOf = map[string]int{"JO": 0, "JNO": 1, "JB": 2, "JC": 2, "JNAE": 2, "JAE": 3, "JNB": 3, "JNC": 3, "JE": 4, "JZ": 4, "JNE": 5, "JNZ": 5,
	"JBE": 6, "JNA": 6, "JA": 7, "JNBE": 7, "JS": 8, "JNS": 9, "JP": 10, "JPE": 10, "JNP": 11, "JPO": 11, "JL": 12, "JNGE": 12, "JGE": 13, "JNL": 13,
	"JLE": 14, "JNG": 14, "JG": 15, "JNLE": 15}

var c04All = []string{"JMP", "CALL", "JE", "JNZ", "JA", "JNBE", "JAE", "JB", "JBE", "JC", "JG", "JGE", "JL", "JLE", "JNA", "JNAE", "JNB", "JNC", "JNE", "JNG", "JNGE",
	"JNL", "JNLE", "JNO", "JNP", "JNS", "JO", "JP", "JPE", "JPO", "JS", "JZ"}

func nClass(n int) string {
	switch {
	case n <= 120:
		return "0..120"
	case n <= 131:
		return fmt.Sprint(n)
	case n <= 140:
		return "132..140"
	}
	return fmt.Sprintf("far:%d", n)
}

// judgeBranch decodes the branch found at offset bo of out and checks condition, target and size.
func judgeBranch(r *core.Result, mn string, mode int, origin int64, bo int, realTarget int64, estKnown bool, est int) []core.Fail {
	var fails []core.Fail
	out := r.Out
	if bo >= len(out) {
		return []core.Fail{{Facet: "decode", Dev: "no_bytes", Detail: "nothing emitted at the branch position"}}
	}
	end := bo + 8
	if end > len(out) {
		end = len(out)
	}
	in, err := x86ref.Decode(out[bo:end], mode)
	if err != nil {
		return []core.Fail{{Facet: "decode", Dev: "undecodable", Detail: fmt.Sprintf("% X: %v", out[bo:end], err)}}
	}
	wantOp := "Jcc"
	if mn == "JMP" || mn == "CALL" {
		wantOp = mn
	}
	if in.Op != wantOp || len(in.Ops) != 1 || in.Ops[0].Kind != "rel" {
		return []core.Fail{{Facet: "opcode", Dev: "got:" + in.Op, Detail: fmt.Sprintf("decoded %s from % X", in, out[bo:end])}}
	}
	if wantOp == "Jcc" && in.CC != ccOf[mn] {
		fails = append(fails, core.Fail{Facet: "cc", Dev: fmt.Sprintf("cc got:%d want:%d", in.CC, ccOf[mn]), Detail: fmt.Sprintf("decoded %s from % X", in, out[bo:end])})
	}
	ipw := mode // width at which the instruction pointer wraps
	if in.Ops[0].Size != 8 && in.OpSize != 0 {
		ipw = in.OpSize
	}
	mask := int64(1)<<uint(ipw) - 1
	landed := (origin + int64(bo) + int64(in.Len) + in.Ops[0].Imm) & mask
	if landed != realTarget&mask {
		diff := (landed - realTarget) & mask
		if diff > mask/2 {
			diff -= mask + 1
		}
		dev := fmt.Sprintf("off_by:%+d", diff)
		if diff > 300 || diff < -300 {
			dev = "off_by:far"
		}
		fails = append(fails, core.Fail{Facet: "target", Dev: dev + fmt.Sprintf(" form:rel%d", in.Ops[0].Size),
			Detail: fmt.Sprintf("branch at %#x (len %d, disp %+d) lands on %#x, target is %#x; decoded %s from % X", origin+int64(bo), in.Len, in.Ops[0].Imm, landed, realTarget&mask, in, out[bo:bo+in.Len])})
	}
	if ex := in.ExtraPrefixes(); len(ex) > 0 {
		fails = append(fails, core.Fail{Facet: "prefix", Dev: "extra:" + strings.Join(ex, ","), Detail: fmt.Sprintf("% X", out[bo:bo+in.Len])})
	}
	if estKnown && est != in.Len {
		fails = append(fails, core.Fail{Facet: "size_estimate", Dev: fmt.Sprintf("est=%d emit=%d", est, in.Len),
			Detail: fmt.Sprintf("pass 1 sized the branch as %d bytes, %d were emitted (% X): every later label is displaced", est, in.Len, out[bo:bo+in.Len])})
	}
	return fails
}

func c04Scenarios(tier string) []*core.Scenario {
	thorough := tier == "thorough"
	orgs := []int64{0, 0x7c00}
	var gaps []int
	for n := 0; n <= 140; n++ {
		gaps = append(gaps, n)
	}
	farGaps := []int{32760, 32764, 32765, 32766, 32767, 32768, 32769, 32770, 32772}
	boundary := []int{0, 1, 2, 124, 125, 126, 127, 128, 129, 130, 131, 140}
	mk := func(name string, mns []string, ns []int, rule string, secondOrg bool) *core.Scenario {
		return &core.Scenario{
			Name: name, Bound: -1, Rule: rule,
			Bounds: map[string]any{"mnemonics": mns, "gaps": fmt.Sprintf("%d values %d..%d", len(ns), ns[0], ns[len(ns)-1]), "origins": orgs, "directions": []string{"forward", "backward"}, "targets": []string{"label", "numeric"}},
			Build: func(c *core.Chooser) *core.Case {
				mode := []int{16, 32}[c.Pick("mode", 2)]
				mn := mns[c.Pick("mn", len(mns))]
				origin := orgs[c.Pick("org", len(orgs))]
				back := c.Bool("backward")
				numeric := c.Bool("numeric")
				n := ns[c.Pick("gap", len(ns))]
				hdr := ""
				if mode == 32 {
					hdr = "[BITS 32]\n"
				}
				if origin != 0 {
					hdr += fmt.Sprintf("\tORG 0x%x\n", origin)
				}
				if secondOrg {
					// three bytes of data under a first origin, then the origin proper: the address of output offset k is origin-3+k
					hdr = strings.TrimSuffix(hdr, fmt.Sprintf("\tORG 0x%x\n", origin)) + "\tORG 0x100\n\tDB 1,2,3\n" + fmt.Sprintf("\tORG 0x%x\n", origin)
					origin -= 3
				}
				gap := ""
				if n > 0 {
					gap = fmt.Sprintf("\tRESB %d\n", n)
				}
				var src string
				var targetOff int // offset of the target in the output (known by construction for numeric targets)
				if !back {
					// S0 ; B target ; RESB n ; target: ; S1
					tgt := "target"
					if numeric {
						// numeric target: the address n bytes behind the END of a 2-byte branch would depend on the
						// form chosen, so the number is fixed as origin+8+2+n and compared as an absolute address
						targetOff = 8 + 2 + n
						tgt = fmt.Sprintf("0x%x", origin+int64(targetOff))
					}
					src = hdr + sentinelLine(0) + fmt.Sprintf("\t%s %s\n", mn, tgt) + gap + "target:\n" + sentinelLine(1) + "lab2:\n" + sentinelLine(3) + "\tDW lab2\n"
				} else {
					// S1 ; target: ; RESB n ; S0 ; B target
					tgt := "target"
					if numeric {
						targetOff = 8
						tgt = fmt.Sprintf("0x%x", origin+8)
					}
					src = hdr + sentinelLine(1) + "target:\n" + gap + sentinelLine(0) + fmt.Sprintf("\t%s %s\n", mn, tgt) + "lab2:\n" + sentinelLine(3) + "\tDW lab2\n"
				}
				dir := "fwd"
				if back {
					dir = "back"
				}
				tk := "label"
				if numeric {
					tk = "numeric"
				}
				cls := "jcc"
				if mn == "JMP" {
					cls = "jmp"
				} else if mn == "CALL" {
					cls = "call"
				}
				return &core.Case{
					Key:  fmt.Sprintf("BITS %d|ORG 0x%x|%s %s %s gap %d", mode, origin, mn, dir, tk, n),
					Feat: feat("mode", fmt.Sprint(mode), "org", fmt.Sprintf("0x%x", origin), "mn", mn, "class", cls, "dir", dir, "tk", tk, "n", fmt.Sprint(n), "nclass", nClass(n)),
					Srcs: []string{src},
					Judge: func(rs []*core.Result) core.Verdict {
						r := rs[0]
						v := core.Verdict{}
						if core.ReportsError(r, nil) {
							v.Outcome = "diagnosed"
							return v
						}
						out := r.Out
						s0 := findSentinel(out, 0)
						if s0 < 0 {
							v.Outcome = "no_sentinels"
							v.Fails = []core.Fail{{Facet: "layout", Dev: "sentinels_lost", Detail: "out=" + hexs(out[:min(len(out), 64)])}}
							return v
						}
						bo := s0 + 8
						var realTarget int64
						if numeric {
							realTarget = origin + int64(targetOff)
						} else {
							s1 := findSentinel(out, 1)
							if s1 < 0 {
								v.Outcome = "no_sentinels"
								v.Fails = []core.Fail{{Facet: "layout", Dev: "target_sentinel_lost", Detail: ""}}
								return v
							}
							if back {
								realTarget = origin + int64(s1) + 8
							} else {
								realTarget = origin + int64(s1)
							}
						}
						estKnown, est := false, 0
						if !r.ViaCLI && !r.Died && r.Sym != nil {
							if lv, ok := r.Sym["lab2"]; ok {
								s3 := findSentinel(out, 3)
								if s3 >= 0 {
									// everything between the branch and lab2 other than the branch itself is data of known size
									var emittedOther int
									if !back {
										emittedOther = n + 8
									}
									realBranchLen := s3 - bo - emittedOther
									est = int(int64(lv)-origin) - bo - emittedOther
									// est is what pass 1 believed; compare with the real length below (via decode)
									estKnown = true
									_ = realBranchLen
								}
							}
						}
						v.Outcome = "assembled"
						v.Nontrivial = true
						v.Fails = judgeBranch(r, mn, mode, origin, bo, realTarget, estKnown, est)
						if len(v.Fails) == 0 {
							v.NTKey = fmt.Sprintf("%d|%x", mode, out[bo:min(len(out), bo+6)])
						}
						return v
					},
				}
			},
		}
	}
	var scs []*core.Scenario
	rule := "branch mnemonic x every gap (RESB n between branch and target) x forward/backward x label/numeric target x ORG x BITS; the branch is decoded by the reference decoder: condition code, next+disp == real target (sentinel-located), no stray prefix, emitted length == pass-1 size; non-trivial = assembled without error; distinct = distinct (mode, branch bytes)"
	_ = boundary
	_ = thorough // both tiers: the full product takes about 20 s
	scs = append(scs, mk("all_mnemonics_all_gaps", c04All, gaps, rule, false))
	scs = append(scs, mk("far_gaps", []string{"JMP", "JE", "CALL", "JNLE"}, farGaps, rule, false))
	scs = append(scs, mk("behind_second_org", []string{"JMP", "JE", "CALL"}, append(append([]int{}, boundary...), 32766, 32767, 32768), rule+" - here behind a SECOND ORG (three data bytes under ORG 0x100 come first)", true))
	scs = append(scs, c04RelaxScenario(tier))
	scs = append(scs, c04RelaxEdges())
	// far jumps
	segs := []int64{0, 1, 8, 0x10, 0xffff, 0x10000, 0x10008}
	offs := []int64{0, 1, 0x1b, 0x7f, 0x80, 0xff, 0x100, 0x7fff, 0x8000, 0xffff, 0x10000, 0x7fffffff, 0x80000000, 0xffffffff, 0x100000000, 0x100000010}
	scs = append(scs, &core.Scenario{Name: "far_jmp", Bound: -1,
		Rule:   "JMP {DWORD, WORD, no keyword} seg:off for boundary selector and offset values x BITS: decoded far pointer fields must equal the source's (either pointer width is accepted for WORD), and the pass-1 size must equal the emitted length",
		Bounds: map[string]any{"selectors": segs, "offsets": offs},
		Build: func(c *core.Chooser) *core.Case {
			mode := []int{16, 32}[c.Pick("mode", 2)]
			sg := segs[c.Pick("seg", len(segs))]
			of := offs[c.Pick("off", len(offs))]
			form := c.Str("form", "DWORD", "plain", "WORD")
			stmt := fmt.Sprintf("JMP DWORD 0x%x:0x%x", sg, of)
			if form == "plain" {
				stmt = fmt.Sprintf("JMP 0x%x:0x%x", sg, of)
			} else if form == "WORD" {
				if of > 0xffff {
					return nil // a 16-bit offset is asked for: which of the two wins is not defined
				}
				stmt = fmt.Sprintf("JMP WORD 0x%x:0x%x", sg, of)
			}
			return &core.Case{
				Key:  fmt.Sprintf("BITS %d|%s", mode, stmt),
				Feat: feat("mode", fmt.Sprint(mode), "form", form, "seg", fmt.Sprintf("0x%x", sg), "offclass", immClass(of)),
				Srcs: []string{bitsHeader(mode) + "\t" + stmt + "\n", bitsHeader(mode)},
				Judge: func(rs []*core.Result) core.Verdict {
					r := rs[0]
					v := core.Verdict{}
					if core.ReportsError(r, rs[1]) {
						v.Outcome = "diagnosed"
						return v
					}
					v.Outcome = "assembled"
					v.Nontrivial = len(r.Out) > 0
					v.NTKey = fmt.Sprintf("%d|%x", mode, r.Out)
					if len(r.Out) == 0 {
						v.Fails = []core.Fail{{Facet: "dropped_silently", Dev: "no_bytes"}}
						return v
					}
					if sg > 0xffff || of > 0xffffffff {
						v.Fails = []core.Fail{{Facet: "far_pointer", Dev: "out_of_range_silently_truncated", Detail: fmt.Sprintf("%s does not fit ptr16:32 but assembled without any diagnostic to % X", stmt, r.Out)}}
						return v
					}
					in, err := x86ref.Decode(r.Out, mode)
					if err != nil || in.Len != len(r.Out) {
						v.Fails = []core.Fail{{Facet: "decode", Dev: "undecodable", Detail: fmt.Sprintf("% X: %v", r.Out, err)}}
						return v
					}
					if in.Op != "JMP" || len(in.Ops) != 1 || in.Ops[0].Kind != "far" {
						v.Fails = []core.Fail{{Facet: "opcode", Dev: "got:" + in.Op, Detail: fmt.Sprintf("decoded %s from % X", in, r.Out)}}
						return v
					}
					if in.Ops[0].Seg != sg&0xffff {
						v.Fails = append(v.Fails, core.Fail{Facet: "far_pointer", Dev: "selector", Detail: fmt.Sprintf("decoded %s from % X", in, r.Out)})
					}
					if form == "DWORD" && in.OpSize != 32 {
						v.Fails = append(v.Fails, core.Fail{Facet: "far_pointer", Dev: fmt.Sprintf("offset_size:%d", in.OpSize), Detail: fmt.Sprintf("decoded %s from % X", in, r.Out)})
					}
					if !r.ViaCLI && !r.Died && int(r.LOC)-int(rs[1].LOC) != len(r.Out) {
						v.Fails = append(v.Fails, core.Fail{Facet: "size_estimate", Dev: fmt.Sprintf("est=%d emit=%d", int(r.LOC)-int(rs[1].LOC), len(r.Out)),
							Detail: fmt.Sprintf("pass 1 sized %s as %d bytes, %d were emitted (% X)", stmt, int(r.LOC)-int(rs[1].LOC), len(r.Out), r.Out)})
					}
					m := int64(1)<<uint(in.OpSize) - 1
					if in.Ops[0].Off != of&m || (of&^m) != 0 {
						v.Fails = append(v.Fails, core.Fail{Facet: "far_pointer", Dev: "offset", Detail: fmt.Sprintf("want %#x; decoded %s from % X", of, in, r.Out)})
					}
					return v
				},
			}
		}})
	return scs
}

func init() {
	register(&Property{
		ID:        "C04",
		Scenarios: c04Scenarios,
		Pre:       x86refSelfCheck,
		Assumptions: []string{
			"the real target address is origin + offset of the unique sentinel DB line at the target (label targets) or the literal number (numeric targets)",
			"the branch is decoded by the x86ref decoder under the BITS mode; next-instruction address + sign-extended displacement is wrapped at the decoded operand size (at the mode's width for rel8)",
			"programs for which gosk reports an error are not judged",
		},
	})
}
