package props

import (
	"fmt"
	"strings"

	"verifengine/core"
)

// C16 — ORG relocates absolute references and nothing else.

type absField struct {
	name  string
	sent  int // sentinel index the field follows
	off   int // offset after the sentinel's 8 bytes
	width int // bytes
}

// c16Program builds a 16-bit program for origin (hasOrg=false: no ORG statement at all).
func c16Program(origin int64, hasOrg bool, filler string, branches []string, resbDollar bool) (string, []absField) {
	var sb strings.Builder
	if hasOrg {
		sb.WriteString(fmt.Sprintf("\tORG 0x%x\n", origin))
	}
	sb.WriteString("start:\n" + sentinelLine(0))
	for _, b := range branches {
		sb.WriteString("\t" + b + "\n")
	}
	if filler != "" {
		sb.WriteString("\t" + filler + "\n")
	}
	var fields []absField
	// (data references are backward only: a forward DW/DD reference is refused by gosk, see C03/C07)
	sb.WriteString(sentinelLine(1) + "\tDW start\n\tDB 0x11\n\tDW start\n")
	fields = append(fields, absField{"DW start", 1, 0, 2}, absField{"DW start (2)", 1, 3, 2})
	sb.WriteString(sentinelLine(2) + "\tDD start\n")
	fields = append(fields, absField{"DD start", 2, 0, 4})
	sb.WriteString(sentinelLine(3) + "\tMOV BX,fwd\n")
	fields = append(fields, absField{"MOV BX,fwd", 3, 1, 2})
	sb.WriteString(sentinelLine(4) + "\tDW $\n")
	fields = append(fields, absField{"DW $", 4, 0, 2})
	sb.WriteString(sentinelLine(5) + "\tMOV SI,start\n")
	fields = append(fields, absField{"MOV SI,start", 5, 1, 2})
	// a $-derived immediate stored into sized memory, and a label as memory address through ModR/M and moffs
	sb.WriteString(sentinelLine(8) + "\tMOV WORD [0x0ff0],$\n")
	fields = append(fields, absField{"MOV WORD [0x0ff0],$", 8, 4, 2})
	sb.WriteString(sentinelLine(9) + "\tMOV BX,[start]\n")
	fields = append(fields, absField{"MOV BX,[start]", 9, 2, 2})
	sb.WriteString(sentinelLine(10) + "\tCMP BYTE [start],0\n")
	fields = append(fields, absField{"CMP BYTE [start],0", 10, 2, 2})
	sb.WriteString(sentinelLine(11) + "\tMOV AX,[start]\n")
	fields = append(fields, absField{"MOV AX,[start]", 11, 1, 2})
	if resbDollar {
		sb.WriteString(fmt.Sprintf("\tRESB 0x%x-$\n", origin+0xd0))
	}
	noLabelBranch := len(branches) == 1 && branches[0] == "JMP $"
	if noLabelBranch { // a program without any label-target branch: only $-derived targets
		sb.WriteString("fwd:\nhere EQU $\n" + sentinelLine(6) + "\tJMP $\n\tJNZ here\n\tCALL here\n" + sentinelLine(7) + "\tDW fwd\n\tDD fwd\n")
	} else {
		sb.WriteString("fwd:\n" + sentinelLine(6) + "\tJMP start\n\tJNZ fwd\n\tCALL start\n" + sentinelLine(7) + "\tDW fwd\n\tDD fwd\n")
	}
	fields = append(fields, absField{"DW fwd (after)", 7, 0, 2}, absField{"DD fwd (after)", 7, 2, 4})
	return sb.String(), fields
}

func c16Scenario(tier string) *core.Scenario {
	type org struct {
		v   int64
		has bool
	}
	orgs := []org{{0, false}, {0, true}, {0x100, true}, {0x7c00, true}, {0xc200, true}, {0x8000, true}, {0xfff0, true}}
	fillers := []string{"", "MOV AX,BX", "DB 1,2,3", "RESB 5", "ALIGNB 16", "MOV WORD [0x0ff4],320"}
	branchSets := [][]string{{"JMP $"}, {}, {"JMP fwd"}, {"JE fwd", "JMP start"}, {"CALL fwd", "JNBE start", "JMP fwd"}}
	if false {
		fillers = fillers[:4]
		branchSets = branchSets[1:3]
	}
	return &core.Scenario{
		Name: "org_pairs", Bound: -1,
		Rule:   "16-bit programs (label branches, label immediates, DW/DD of labels, $, a $-derived immediate into sized memory, a label as memory address, RESB x-$) x all ordered pairs of 7 ORG settings (incl. no ORG); out_B must equal out_A with delta added at exactly the absolute fields; non-trivial = the two origins differ and both programs assembled",
		Bounds: map[string]any{"origins": []string{"none", "0", "0x100", "0x7c00", "0xc200", "0x8000", "0xfff0"}, "fillers": fillers, "branch_sets": len(branchSets)},
		Build: func(c *core.Chooser) *core.Case {
			fl := fillers[c.Pick("filler", len(fillers))]
			bs := branchSets[c.Pick("branches", len(branchSets))]
			rd := c.Bool("resb_dollar")
			a := orgs[c.Pick("orgA", len(orgs))]
			b := orgs[c.Pick("orgB", len(orgs))]
			srcA, fields := c16Program(a.v, a.has, fl, bs, rd)
			srcB, _ := c16Program(b.v, b.has, fl, bs, rd)
			name := func(o org) string {
				if !o.has {
					return "none"
				}
				return fmt.Sprintf("0x%x", o.v)
			}
			delta := b.v - a.v
			return &core.Case{
				Key:  fmt.Sprintf("ORG %s->%s|filler=%s|branches=%s|resb$=%v", name(a), name(b), fl, strings.Join(bs, ";"), rd),
				Feat: feat("orgA", name(a), "orgB", name(b), "filler", fl, "branches", strings.Join(bs, ";"), "resb_dollar", fmt.Sprint(rd)),
				Srcs: []string{srcA, srcB},
				Judge: func(rs []*core.Result) core.Verdict {
					v := core.Verdict{}
					ra, rb := rs[0], rs[1]
					if core.ReportsError(ra, nil) || core.ReportsError(rb, nil) {
						v.Outcome = "diagnosed"
						if core.ReportsError(ra, nil) != core.ReportsError(rb, nil) {
							v.Fails = []core.Fail{{Facet: "reloc", Dev: "error_only_at_one_origin", Detail: errSummary(ra) + " / " + errSummary(rb)}}
						}
						return v
					}
					v.Outcome = "assembled"
					v.Nontrivial = delta != 0 || a.has != b.has
					oa, ob := ra.Out, rb.Out
					if len(oa) != len(ob) {
						v.Fails = []core.Fail{{Facet: "reloc", Dev: fmt.Sprintf("length:%+d", len(ob)-len(oa)), Detail: fmt.Sprintf("len A=%d len B=%d", len(oa), len(ob))}}
						return v
					}
					exp := append([]byte(nil), oa...)
					for _, f := range fields {
						s := findSentinel(oa, f.sent)
						if s < 0 || s+8+f.off+f.width > len(oa) {
							v.Fails = append(v.Fails, core.Fail{Facet: "layout", Dev: "sentinel_lost", Detail: f.name})
							return v
						}
						p := s + 8 + f.off
						val := rdle(oa[p:p+f.width]) + delta
						copy(exp[p:p+f.width], le(val, f.width))
					}
					for i := range exp {
						if exp[i] != ob[i] {
							// attribute to a field or to non-absolute bytes
							where := "non_absolute_byte"
							for _, f := range fields {
								s := findSentinel(oa, f.sent)
								p := s + 8 + f.off
								if i >= p && i < p+f.width {
									where = "abs_field:" + f.name
								}
							}
							v.Fails = append(v.Fails, core.Fail{Facet: "reloc", Dev: where, Detail: fmt.Sprintf("offset %d: expected %02X (A relocated by %+d) got %02X", i, exp[i], delta, ob[i])})
							break
						}
					}
					return v
				},
			}
		},
	}
}

func init() {
	register(&Property{
		ID:        "C16",
		Scenarios: func(tier string) []*core.Scenario { return []*core.Scenario{c16Scenario(tier)} },
		Assumptions: []string{
			"absolute fields are at model-known positions after sentinels (DW/DD data; imm16 of MOV r16,imm at +1, an encoding verified by C01)",
			"all ORG values used are multiples of 16, so ALIGNB 16 is alignment-preserving",
			"pairs in which gosk reports an error at both origins are not judged; an error at only one origin is a failure",
		},
	})
}
