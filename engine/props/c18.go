package props

import (
	"fmt"
	"strings"

	"verifengine/core"
	"verifengine/x86ref"
)

// C18 — compact encodings are chosen where the ISA offers them.

func c18Extra(mode int, w x86ref.Want) func(out []byte, got x86ref.Inst) []core.Fail {
	return func(out []byte, got x86ref.Inst) []core.Fail {
		min := x86ref.MinLen(w, mode)
		if min == 0 {
			return []core.Fail{{Facet: "model", Dev: "no_reference_encoding", Detail: "the reference encoder lists no encoding"}}
		}
		if len(out) > min {
			return []core.Fail{{Facet: "minimal_len", Dev: fmt.Sprintf("len=%d min=%d", len(out), min),
				Detail: fmt.Sprintf("emitted % X (%d bytes); shortest valid encoding has %d bytes", out, len(out), min)}}
		}
		return nil
	}
}

// c18Judge: only statements that decode to the source instruction are judged (anything else is C01's).
func c18Case(mode int, stmt string, w x86ref.Want, f map[string]string) *core.Case {
	cs := insnCase(mode, stmt, w, f, c18Extra(mode, w))
	inner := cs.Judge
	cs.Judge = func(rs []*core.Result) core.Verdict {
		v := inner(rs)
		var keep []core.Fail
		for _, fl := range v.Fails {
			if fl.Facet == "minimal_len" || fl.Facet == "model" {
				keep = append(keep, fl)
			}
		}
		// a prefix that changes nothing (the bytes denote the source instruction once it is dropped) is still the
		// instruction - only longer than necessary, which is exactly this property's subject
		if len(keep) == 0 && len(v.Fails) == 1 && v.Fails[0].Facet == "prefix" && strings.HasPrefix(v.Fails[0].Dev, "spurious:") && len(rs[0].Out) > 0 {
			if min := x86ref.MinLen(w, mode); min > 0 && len(rs[0].Out) > min {
				keep = append(keep, core.Fail{Facet: "minimal_len", Dev: fmt.Sprintf("len=%d min=%d", len(rs[0].Out), min),
					Detail: fmt.Sprintf("emitted % X (%d bytes, with a redundant %s prefix); shortest valid encoding has %d bytes", rs[0].Out, len(rs[0].Out), v.Fails[0].Dev[len("spurious:"):], min)})
			}
		}
		if len(keep) == 0 && len(v.Fails) > 0 {
			v.Outcome = "not_the_instruction(C01)"
			v.Skipped = true
		}
		v.Fails = keep
		return v
	}
	return cs
}

func c18Scenarios(tier string) []*core.Scenario {
	modes := []int{16, 32}
	imms := []int64{-32769, -32768, -130, -129, -128, -127, -126, -1, 0, 1, 126, 127, 128, 129, 130, 0xf0, 255, 256, 0x7fff, 0x8000}
	ops := []string{"ADD", "OR", "AND", "SUB", "XOR", "CMP"}
	var scs []*core.Scenario
	scs = append(scs, &core.Scenario{Name: "alu_imm", Bound: -1,
		Rule:   "six immediate-group operations x every 8/16/32-bit register and BYTE/WORD/DWORD memory destination (6 shapes) x signed immediates on both sides of -128/127 and +-32768, each written as a literal, as a constant expression and as an EQU name x BITS; non-trivial = decoded to the source instruction",
		Bounds: map[string]any{"ops": ops, "immediates": imms},
		Build: func(c *core.Chooser) *core.Case {
			mode := modes[c.Pick("mode", 2)]
			mn := ops[c.Pick("mn", len(ops))]
			w := []int{16, 32, 8}[c.Pick("w", 3)]
			k := c.Pick("dst", 8+6)
			iv := imms[c.Pick("imm", len(imms))]
			if w == 8 && (iv < -128 || iv > 255) {
				return nil
			}
			// how the immediate is written: a literal, a constant expression with that value, or an EQU name defined by one
			spell := c.Str("spelling", "literal", "expression", "equ_name")
			expr := fmt.Sprintf("7-%d", 7-iv)
			if iv >= 7 {
				expr = fmt.Sprintf("7+%d", iv-7)
			}
			operand, prelude := fmt.Sprint(iv), ""
			switch spell {
			case "expression":
				operand = expr
			case "equ_name":
				operand, prelude = "K8", "K8 EQU "+expr+"\n"
			}
			var cs *core.Case
			if k < 8 {
				a := regsOf(w)[k]
				cs = c18Case(mode, fmt.Sprintf("%s %s,%s", mn, a, operand), x86ref.Want{Op: mn, OpSize: w, Ops: []x86ref.WantOp{wreg(a), wimm(iv, w)}},
					feat("form", "r,imm", "mn", mn, "w", fmt.Sprint(w), "dst", a, "imm", fmt.Sprint(iv), "s8", fmt.Sprint(iv >= -128 && iv <= 127), "acc", fmt.Sprint(k == 0), "spelling", spell))
			} else {
				m := c01MemShapes(mode)[k-8]
				cs = c18Case(mode, fmt.Sprintf("%s %s %s,%s", mn, sizeKw(w), m.text, operand), x86ref.Want{Op: mn, OpSize: w, Ops: []x86ref.WantOp{wmem(m, w), wimm(iv, w)}},
					feat("form", "m,imm", "mn", mn, "w", fmt.Sprint(w), "shape", m.text, "imm", fmt.Sprint(iv), "s8", fmt.Sprint(iv >= -128 && iv <= 127), "spelling", spell))
			}
			if prelude != "" { // the definition stands in the baseline program too
				cs.Srcs = []string{strings.Replace(cs.Srcs[0], "\t", prelude+"\t", 1), cs.Srcs[1] + prelude}
				cs.Key += " (K8 EQU " + expr + ")"
			}
			return cs
		}})
	abss := []int64{0, 1, 0x7f, 0x80, 0xff, 0x100, 0x7c00, 0xfffe, 0xffff, 0x10000, 0x12345678}
	scs = append(scs, &core.Scenario{Name: "mov_moffs", Bound: -1,
		Rule:   "MOV AL/AX/EAX <-> [abs] in both directions, abs across 0xffff (32-bit mode only above), x BITS",
		Bounds: map[string]any{"addresses": abss},
		Build: func(c *core.Chooser) *core.Case {
			mode := modes[c.Pick("mode", 2)]
			w := []int{8, 16, 32}[c.Pick("w", 3)]
			acc := map[int]string{8: "AL", 16: "AX", 32: "EAX"}[w]
			a := abss[c.Pick("abs", len(abss))]
			if mode == 16 && a > 0xffff {
				return nil
			}
			m := memShape{fmt.Sprintf("[0x%x]", a), x86ref.MemSpec{Disp: a, AddrSize: mode, Abs: true}}
			if c.Bool("store") {
				return c18Case(mode, fmt.Sprintf("MOV %s,%s", m.text, acc), x86ref.Want{Op: "MOV", OpSize: w, Ops: []x86ref.WantOp{wmem(m, w), wreg(acc)}},
					feat("form", "moffs_store", "mn", "MOV", "w", fmt.Sprint(w), "abs", m.text))
			}
			return c18Case(mode, fmt.Sprintf("MOV %s,%s", acc, m.text), x86ref.Want{Op: "MOV", OpSize: w, Ops: []x86ref.WantOp{wreg(acc), wmem(m, w)}},
				feat("form", "moffs_load", "mn", "MOV", "w", fmt.Sprint(w), "abs", m.text))
		}})
	b25 := immB25()
	scs = append(scs, &core.Scenario{Name: "mov_reg_imm", Bound: -1,
		Rule:   "MOV r,imm for all 24 registers x 25 boundary immediates x BITS",
		Bounds: map[string]any{"immediates": b25},
		Build: func(c *core.Chooser) *core.Case {
			mode := modes[c.Pick("mode", 2)]
			w := []int{8, 16, 32}[c.Pick("w", 3)]
			a := regsOf(w)[c.Pick("dst", 8)]
			iv := b25[c.Pick("imm", len(b25))]
			return c18Case(mode, fmt.Sprintf("MOV %s,%s", a, immText(iv)), x86ref.Want{Op: "MOV", OpSize: w, Ops: []x86ref.WantOp{wreg(a), wimm(iv, w)}},
				feat("form", "r,imm", "mn", "MOV", "w", fmt.Sprint(w), "dst", a, "immclass", immClass(iv)))
		}})
	scs = append(scs, &core.Scenario{Name: "push_pop_reg", Bound: -1,
		Rule:   "PUSH/POP x every 16- and 32-bit register and every segment register x BITS",
		Bounds: map[string]any{},
		Build: func(c *core.Chooser) *core.Case {
			mode := modes[c.Pick("mode", 2)]
			mn := c.Str("mn", "PUSH", "POP")
			wi := c.Pick("w", 3)
			if wi == 2 { // segment registers (POP CS does not exist)
				sr := x86ref.SReg[c.Pick("reg", 6)]
				if mn == "POP" && sr == "CS" {
					return nil
				}
				return c18Case(mode, mn+" "+sr, x86ref.Want{Op: mn, Ops: []x86ref.WantOp{wreg(sr)}}, feat("form", "sreg", "mn", mn, "w", "sreg", "reg", sr))
			}
			w := []int{16, 32}[wi]
			a := regsOf(w)[c.Pick("reg", 8)]
			return c18Case(mode, mn+" "+a, x86ref.Want{Op: mn, OpSize: w, Ops: []x86ref.WantOp{wreg(a)}}, feat("form", "r", "mn", mn, "w", fmt.Sprint(w), "reg", a))
		}})
	// PUSH imm: 6A ib where the value fits a sign-extended byte, 68 iw/id otherwise (mode-sized push)
	scs = append(scs, &core.Scenario{Name: "push_imm", Bound: -1,
		Rule:   "PUSH of signed immediates on both sides of -128/127 and of the word/dword limits, written as a literal, a constant expression and an EQU name x BITS: the bytes must decode to that PUSH and be no longer than 2 bytes where the value fits a sign-extended byte, 1 + 2/4 bytes otherwise",
		Bounds: map[string]any{"immediates": imms},
		Build: func(c *core.Chooser) *core.Case {
			mode := modes[c.Pick("mode", 2)]
			iv := imms[c.Pick("imm", len(imms))]
			if mode == 16 && (iv < -32768 || iv > 0xffff) {
				return nil
			}
			spell := c.Str("spelling", "literal", "expression", "equ_name")
			expr := fmt.Sprintf("7-%d", 7-iv)
			if iv >= 7 {
				expr = fmt.Sprintf("7+%d", iv-7)
			}
			operand, prelude := fmt.Sprint(iv), ""
			switch spell {
			case "expression":
				operand = expr
			case "equ_name":
				operand, prelude = "K8", "K8 EQU "+expr+"\n"
			}
			stmt := "PUSH " + operand
			src := bitsHeader(mode) + prelude + "\t" + stmt + "\n"
			base := bitsHeader(mode) + prelude
			min := 1 + mode/8
			if iv >= -128 && iv <= 127 {
				min = 2
			}
			return &core.Case{
				Key:  fmt.Sprintf("BITS %d|%s", mode, stmt) + map[bool]string{true: " (K8 EQU " + expr + ")", false: ""}[prelude != ""],
				Feat: feat("form", "push_imm", "mn", "PUSH", "imm", fmt.Sprint(iv), "spelling", spell, "mode", fmt.Sprint(mode)),
				Srcs: []string{src, base},
				Judge: func(rs []*core.Result) core.Verdict {
					v := core.Verdict{}
					if core.ReportsError(rs[0], rs[1]) {
						v.Outcome = "diagnosed"
						return v
					}
					out := rs[0].Out
					in, err := x86ref.Decode(out, mode)
					if err != nil || in.Len != len(out) || in.Op != "PUSH" || len(in.Ops) != 1 || in.Ops[0].Kind != "imm" || (in.Ops[0].Imm^iv)&(int64(1)<<uint(mode)-1) != 0 {
						v.Outcome = "not_the_instruction(C01)"
						v.Skipped = true
						return v
					}
					v.Outcome = "ok"
					v.Nontrivial = true
					if len(out) > min {
						v.Fails = []core.Fail{{Facet: "minimal_len", Dev: fmt.Sprintf("len=%d min=%d", len(out), min), Detail: fmt.Sprintf("emitted % X (%d bytes); shortest valid encoding has %d bytes", out, len(out), min)}}
					}
					return v
				},
			}
		}})
	return scs
}

func init() {
	register(&Property{
		ID:        "C18",
		Scenarios: c18Scenarios,
		Pre:       x86refSelfCheck,
		Assumptions: []string{
			"the reference encoder (x86ref.Encodings) lists, for each instruction of the space, a set of valid encodings containing a shortest one; every listed encoding is checked to decode back to the instruction before exploration",
			"only statements whose bytes decode to the source instruction are judged (anything else is C01's subject and is counted as not judged)",
			"immediates are written as signed decimals; unsigned spellings that are merely congruent to a small negative value are not part of the space",
		},
	})
}
