package props

import (
	"bytes"
	"fmt"
	"strings"
	"sync"
	"time"

	"verifengine/core"
)

// C12 — comments, spacing and line endings never change the output.
//
// Programs are written in a token notation: tokens separated by ' ' have an OPTIONAL gap between
// them, tokens separated by '~' a MANDATORY one; quotes protect their content. Labels and EQU lines
// start in column 0 in the canonical layout, everything else after one tab.

var c12Programs = [][]string{
	{"MOV~AX , 1", "ADD~CX , 0x100", "HLT"},
	{"MOV~AX , [ BX + 4 ]", "MOV [ SI ] , CL", "MOV~EAX , [ EBX + ECX * 4 + 8 ]"},
	{"MOV~BYTE [ 0x0ff0 ] , 8", "MOV~WORD [ BX ] , 320", "MOV~DWORD [ EBX + 4 ] , 0x000a0000"},
	{"DB~1 , 2 , 3", "DW~0x1234 , 5", "DD~0x12345678"},
	{`DB "a;b" , "c#d" , "e,f"`, `DB "it's" , 0`, `DB "x y" , 0x0a`},
	{`DB "hello, world" , 0x0a , 0`, "RESB~16", "DB~0x55 , 0xAA"},
	{"ORG~0x7c00", "start:", "JMP~start", "DB~1"},
	{"entry:", "MOV~AX , 0", "JE~entry", "JMP~fin", "fin:", "HLT"},
	{"X~EQU~5", "Y~EQU~X * 2 + 1", "MOV~AL , X", "DB~Y"},
	{"CYLS~EQU~10", "MOV~CH , CYLS", "CMP~CH , CYLS - 1"},
	{"[BITS~32]", "MOV~EAX , 1", "PUSH~EAX", "RET"},
	{`[INSTRSET "i486p"]`, "[BITS~32]", "MOV~ECX , [ ESP + 4 ]", "RET"},
	{"MOV~AX , ( 1 + 2 ) * 3", "MOV~BX , 2 * ( 3 + 4 ) - 1", "DW ( 0x10 + 2 ) / 3 , 7 % 4"},
	{"RESB~0x20 - $", "DB~1", "ALIGNB~16", "DB~2"},
	{"IN~AL , 0x60", "OUT~0x21 , AL", "IN~AL , DX", "OUT~DX , AX"},
	{"INT~0x10", "INT~3", "CLI", "STI", "NOP"},
	{"PUSH~AX", "POP~BX", "PUSH~1", "PUSH~WORD [ BX ]"},
	{"SHL~AX , 1", "SHR~BX , 4", "NOT~CX", "SAR~EAX , 16"},
	{"AND~EAX , 0x7fffffff", "OR~EAX , 1", "XOR~BX , BX", "CMP~AL , 0"},
	{"JMP~DWORD~2 * 8:0x0000001b", "DB~0x90"},
	{"MOV~DS , AX", "MOV~AX , ES", "MOV~CR0 , EAX", "MOV~EAX , CR0"},
	{"msg:", `DB "boot" , 0`, "MOV~SI , msg", "LGDT [ msg ]"},
	{"CALL~sub1", "HLT", "sub1:", "RET"},
	{"IMUL~CX , 4", "IMUL~ECX , 4608", "SUB~ECX , 128"},
	{"DB -1 , 2", "MOV [ 0x0ff0 ] , AL", "DW -2 , ( 1 )", `DB "x" , -1`},
	{"MOV~AL , [ SI ]", "ADD~SI , 1", "CMP~AL , 0", "MOV~AH , 0x0e", "MOV~BX , 15"},
	// GLOBAL / EXTERN as the FIRST statement of the file (what stands in front of it is then the start of the file)
	{"GLOBAL~start , fin", "start:", "MOV~AX , 1", "fin:", "RET"},
	{"EXTERN~ext_sym", "MOV~AX , 1", "HLT"},
}

func c12Tokens(stmt string) (toks []string, mand []bool) {
	var cur strings.Builder
	inq := byte(0)
	flush := func(m bool) {
		if cur.Len() > 0 {
			toks = append(toks, cur.String())
			mand = append(mand, m)
			cur.Reset()
		}
	}
	pendingMand := false
	for i := 0; i < len(stmt); i++ {
		ch := stmt[i]
		if inq != 0 {
			cur.WriteByte(ch)
			if ch == inq {
				inq = 0
			}
			continue
		}
		switch ch {
		case '"':
			inq = ch
			cur.WriteByte(ch)
		case ' ', '~':
			if cur.Len() > 0 {
				toks = append(toks, cur.String())
				mand = append(mand, pendingMand)
				cur.Reset()
			}
			pendingMand = ch == '~'
			if ch == '~' && len(mand) > 0 {
				// the gap BEFORE the next token is mandatory
			}
			// record the kind of the gap that follows the token just closed
			if len(toks) > 0 {
				if ch == '~' {
					mand[len(mand)-1] = true
				} else {
					mand[len(mand)-1] = false
				}
			}
		default:
			cur.WriteByte(ch)
		}
	}
	flush(false)
	return
}

var c12Opt = []string{"", " ", "\t", "  "}
var c12Mand = []string{" ", "\t", "  \t "}
var c12Lead = []string{"\t", "", " ", "    ", "\t\t "}
var c12LeadCol0 = []string{"", " ", "\t"}

// after-statement alternatives (0 = nothing)
var c12After = []string{"", " ;c", ";c", " #c", "#c", "#two words", ";AX", " ;\"", " #;", " ;", "\n", "\n;c", "\n\t# c", "\n  \t",
	// comment texts with unbalanced brackets and quotes (anything a pre-scan of the raw text could trip over)
	" ; 1) clear", " ; (see below", " ; dir C:\\osask\\", "\n# ends with a backslash \\", " # 3.5\" disk", " ; it's", " ;[", " ;]", "\n; :-) ((", " ; DB 1,2 ; MOV AX,[BX"}
var c12Before = []string{"", "\n", ";c\n", "\t# c\n", "  \t\n"}

func c12Scenario(bound int, name string) *core.Scenario {
	return &core.Scenario{
		Name: name, Bound: bound,
		Rule:   fmt.Sprintf("28 base programs covering every statement kind, re-laid-out token-wise: every layout that deviates from the canonical one in at most %d places (each gap: alternative whitespace; after each statement: 21 comment/blank-line variants (comments with and without a blank in front of ';' / '#') (incl. comment texts with unbalanced brackets and quotes); before the first statement: 4; line-ending convention LF/CRLF/CR; final newline absent); output and error class must equal the canonical layout's; non-trivial = canonical assembled, emitted >= 1 byte and the layout deviates", bound),
		Bounds: map[string]any{"programs": len(c12Programs), "deviation_bound": bound, "gap_alternatives": map[string]any{"optional": c12Opt, "mandatory": c12Mand, "leading": c12Lead}, "after_statement": c12After, "before_first": c12Before, "line_endings": []string{"LF", "CRLF", "CR"}},
		Build: func(c *core.Chooser) *core.Case {
			pi := c.Pick("prog", len(c12Programs))
			prog := c12Programs[pi]
			var lay, canon strings.Builder
			var eol string
			if bound <= 1 {
				// quick tier: the line-ending convention is a free dimension (not counted against the bound),
				// so that every single deviation is also seen under CRLF and CR
				eol = []string{"\n", "\r\n", "\r"}[c.Pick("eol", 3)]
			} else {
				eol = []string{"\n", "\r\n", "\r"}[c.Dev("eol", 3)]
			}
			beforeIdx := c.Dev("before", len(c12Before))
			lay.WriteString(c12Before[beforeIdx])
			lead0, nofinalF, firstIsLabel := 0, false, false
			for si, st := range prog {
				toks, mand := c12Tokens(st)
				col0 := strings.HasSuffix(toks[0], ":") || (len(toks) > 1 && toks[1] == "EQU")
				lead := c12Lead
				if col0 {
					lead = c12LeadCol0
				}
				li := c.Dev(fmt.Sprintf("s%d.lead", si), len(lead))
				if si == 0 {
					lead0 = li
					firstIsLabel = strings.HasSuffix(toks[0], ":")
				}
				lay.WriteString(lead[li])
				canon.WriteString(lead[0])
				for ti, t := range toks {
					lay.WriteString(t)
					canon.WriteString(t)
					if ti == len(toks)-1 {
						break
					}
					if mand[ti] {
						lay.WriteString(c12Mand[c.Dev(fmt.Sprintf("s%d.g%d", si, ti), len(c12Mand))])
						canon.WriteString(c12Mand[0])
					} else {
						lay.WriteString(c12Opt[c.Dev(fmt.Sprintf("s%d.g%d", si, ti), len(c12Opt))])
						canon.WriteString(c12Opt[0])
					}
				}
				lay.WriteString(c12Opt[c.Dev(fmt.Sprintf("s%d.trail", si), len(c12Opt))])
				after := c12After[c.Dev(fmt.Sprintf("s%d.after", si), len(c12After))]
				last := si == len(prog)-1
				if last {
					// final newline present / absent (only meaningful after a non-label statement)
					nofinal := !col0 && c.Dev("nofinal", 2) == 1
					nofinalF = nofinal
					lay.WriteString(after)
					if !nofinal {
						lay.WriteString("\n")
					}
				} else {
					lay.WriteString(after + "\n")
				}
				canon.WriteString("\n")
			}
			src := lay.String()
			if eol != "\n" {
				src = strings.ReplaceAll(src, "\n", eol)
			}
			csrc := canon.String()
			cost := c.Cost()
			return &core.Case{
				Key: fmt.Sprintf("prog %d|%q", pi, src),
				Feat: feat("prog", fmt.Sprint(pi), "cost", fmt.Sprint(cost), "eol", fmt.Sprintf("%q", eol), "before", fmt.Sprint(beforeIdx), "lead0", fmt.Sprint(lead0),
					"first_is_label", fmt.Sprint(firstIsLabel), "nofinal", fmt.Sprint(nofinalF)),
				FreshRefs: true, Srcs: []string{src, csrc},
				Judge: func(rs []*core.Result) core.Verdict {
					v := core.Verdict{}
					r, cr := rs[0], rs[1]
					if core.HardFailure(cr) {
						v.Outcome = "canonical_fails"
						v.Fails = []core.Fail{{Facet: "harness", Dev: "canonical_layout_rejected", Detail: errSummary(cr)}}
						return v
					}
					v.Outcome = "assembled"
					v.Nontrivial = len(cr.Out) > 0 && cost > 0
					if core.HardFailure(r) {
						kind := "parse_error"
						if r.Panic != "" {
							kind = "panic"
						}
						v.Fails = []core.Fail{{Facet: "layout", Dev: "rejected:" + kind, Detail: errSummary(r)}}
						return v
					}
					if !bytes.Equal(r.Out, cr.Out) {
						dev := "bytes_differ"
						if len(r.Out) != len(cr.Out) {
							dev = fmt.Sprintf("length:%+d", len(r.Out)-len(cr.Out))
							if len(r.Out) == 0 {
								dev = "empty_output"
							}
						}
						v.Fails = []core.Fail{{Facet: "layout", Dev: dev, Detail: fmt.Sprintf("layout gives %x, canonical %x", r.Out, cr.Out)}}
					} else if core.ReportsError(r, cr) != core.ReportsError(cr, r) {
						v.Fails = []core.Fail{{Facet: "layout", Dev: "diagnostics_differ", Detail: errSummary(r) + " // " + errSummary(cr)}}
					}
					return v
				},
			}
		},
	}
}

// c12CLI: the layout dimensions that the command-line front end itself handles (character-set
// decoding and whatever it does to the text before parsing): line endings x final newline x a
// trailing comment on the last line x a leading comment line, through the REAL command.
func c12CLI(r *core.Run, tier string) {
	t0 := time.Now()
	p := r.Cfg.Pool
	type variant struct {
		eol                      string
		nofinal, comment, leader bool
	}
	var vs []variant
	for _, e := range []string{"\n", "\r\n", "\r"} {
		for _, nf := range []bool{false, true} {
			for _, cm := range []bool{false, true} {
				for _, ld := range []bool{false, true} {
					vs = append(vs, variant{e, nf, cm, ld})
				}
			}
		}
	}
	var mu sync.Mutex
	var spawns, nontriv int64
	var wg sync.WaitGroup
	sem := make(chan struct{}, p.N)
	for pi, prog := range c12Programs {
		var canon strings.Builder
		for _, st := range prog {
			toks, mand := c12Tokens(st)
			col0 := strings.HasSuffix(toks[0], ":") || (len(toks) > 1 && toks[1] == "EQU")
			if !col0 {
				canon.WriteString("\t")
			}
			for ti, t := range toks {
				canon.WriteString(t)
				if ti < len(toks)-1 && mand[ti] {
					canon.WriteString(" ")
				}
			}
			canon.WriteString("\n")
		}
		csrc := canon.String()
		firstIsLabel := strings.HasSuffix(strings.Fields(prog[0])[0], ":")
		ref := p.CLI(csrc, nil, false)
		for _, v := range vs {
			_ = firstIsLabel // (a comment line before a first-statement label was the known finding C12-F01 until cd8352b)
			wg.Add(1)
			sem <- struct{}{}
			go func(pi int, v variant) {
				defer wg.Done()
				defer func() { <-sem }()
				src := csrc
				if v.comment {
					// comment text: ASCII, Shift_JIS (ending in a 0x5C trail byte), UTF-8, or unbalanced brackets/quotes, by program index
					txts := []string{"last comment", "\x93\xfa\x96\x7b\x8c\xea\x83\x5c", "日本語ソ", "1) clear (the rest", "3.5\" floppy, it's", "] [ ) ( \"", "\x83\x5c) (", "built from C:\\osask\\ipl\\"}
					txt := txts[pi%len(txts)]
					src = strings.TrimSuffix(src, "\n") + " ; " + txt + "\n"
					if v.leader {
						src = "; " + txt + "\n" + strings.TrimPrefix(src, "")
					}
				}
				if v.leader && !v.comment {
					src = "; leading comment\n" + src
				}
				if v.nofinal {
					src = strings.TrimSuffix(src, "\n")
				}
				if v.eol != "\n" {
					src = strings.ReplaceAll(src, "\n", v.eol)
				}
				got := p.CLI(src, nil, false)
				mu.Lock()
				spawns++
				if len(ref.Out) > 0 {
					nontriv++
				}
				mu.Unlock()
				if got.ExitCode != ref.ExitCode || !bytes.Equal(got.Out, ref.Out) {
					dev := "bytes_differ"
					if got.ExitCode != ref.ExitCode {
						dev = fmt.Sprintf("exit:%d", got.ExitCode)
					} else if len(got.Out) != len(ref.Out) {
						dev = fmt.Sprintf("length:%+d", len(got.Out)-len(ref.Out))
					}
					r.AddFail("cli_layouts", fmt.Sprintf("prog %d|%q", pi, src),
						map[string]string{"prog": fmt.Sprint(pi), "eol": fmt.Sprintf("%q", v.eol), "nofinal": fmt.Sprint(v.nofinal), "comment": fmt.Sprint(v.comment), "leader": fmt.Sprint(v.leader)},
						[]string{src, csrc}, core.Fail{Facet: "cli_layout", Dev: dev, Detail: fmt.Sprintf("command gives %x (exit %d), canonical layout %x", got.Out, got.ExitCode, ref.Out)})
				}
				r.AddNT(fmt.Sprintf("cli|%d|%v", pi, v))
			}(pi, v)
		}
	}
	wg.Wait()
	// a source of ordinary length (the layouts above are a handful of lines): 150 statements, the three line-ending
	// conventions, with and without a final line terminator
	{
		var long strings.Builder
		for i := 0; i < 50; i++ {
			fmt.Fprintf(&long, "\tMOV AX,%d\n\tADD [BX+%d],AL ; line %d\n\tDB %d,\"x;y\",0\n", i, i, i, i)
		}
		lf := long.String()
		ref := p.CLI(lf, nil, false)
		for _, eol := range []string{"\r\n", "\r"} {
			for _, nofinal := range []bool{false, true} {
				src := strings.ReplaceAll(lf, "\n", eol)
				if nofinal {
					src = strings.TrimSuffix(src, eol)
				}
				got := p.CLI(src, nil, false)
				spawns++
				if got.ExitCode != ref.ExitCode || !bytes.Equal(got.Out, ref.Out) {
					r.AddFail("cli_layouts", fmt.Sprintf("150 statements|eol=%q|nofinal=%v", eol, nofinal), map[string]string{"prog": "long", "eol": fmt.Sprintf("%q", eol)}, []string{src, lf},
						core.Fail{Facet: "cli_layout", Dev: fmt.Sprintf("long_source exit:%d length:%+d", got.ExitCode, len(got.Out)-len(ref.Out)), Detail: fmt.Sprintf("command gives %d bytes (exit %d), the LF form %d bytes (exit %d): %s", len(got.Out), got.ExitCode, len(ref.Out), ref.ExitCode, trunc(got.Stdout, 120))})
				}
				r.AddNT(fmt.Sprintf("cli|long|%q|%v", eol, nofinal))
			}
		}
	}
	r.AddSample(map[string]any{"cli_layout": "program 0 with CR line endings, no final newline, a comment on the last line"})
	r.AddCustom("cli_layouts", "26 programs x {LF, CRLF, CR} x {final newline, none} x {comment on the last line, none} x {leading comment line, none}, each written to a file and assembled by the REAL command (so the front end's decoding and pre-processing are included); output and exit status must equal the canonical layout's",
		map[string]any{"programs": len(c12Programs), "variants": len(vs)}, spawns+1, spawns, spawns, nontriv, 1, true, time.Since(t0).Seconds())
}

func init() {
	register(&Property{
		ID:     "C12",
		Custom: c12CLI,
		Scenarios: func(tier string) []*core.Scenario {
			if tier == "thorough" {
				return []*core.Scenario{c12Scenario(2, "layout_dev2")}
			}
			return []*core.Scenario{c12Scenario(1, "layout_dev1")}
		},
		Assumptions: []string{
			"differential oracle: the canonical layout (one tab of indentation, single spaces where a gap is mandatory, no optional gaps, LF, final newline) is the reference",
			"permitted gaps: indentation, between mnemonic/size keyword and operand, around commas, around + - * / %, inside [ ] and ( ), trailing; no gap is inserted inside a label, a bracket directive keyword or around ':' of a far pointer",
		},
	})
}
