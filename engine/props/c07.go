package props

import (
	"bytes"
	"fmt"
	"regexp"
	"strings"
	"sync"
	"time"

	"verifengine/core"
	"verifengine/x86ref"
)

// C07 — nothing is dropped or mis-assembled silently.

type opKind struct {
	name, text string
}

var c07Kinds = []opKind{
	{"r8", "CL"}, {"r16", "CX"}, {"r32", "ECX"}, {"sreg", "ES"}, {"creg", "CR0"}, {"imm8", "1"}, {"imm16", "0x1234"}, {"imm32", "0x12345678"},
	{"mem", "[BX]"}, {"mem8", "BYTE [BX]"}, {"mem16", "WORD [BX]"}, {"label", "pre"}, {"undef", "undef_sym"}, {"str", `"ab"`}, {"far", "8:0x10"},
}

var c07Directives = map[string]bool{"DB": true, "DW": true, "DD": true, "DQ": true, "DT": true, "RESB": true, "RESW": true, "RESD": true, "RESQ": true, "REST": true,
	"ORG": true, "ALIGNB": true, "ALIGN": true, "TIMES": true, "END": true}

func c07NameMatches(mn string, in x86ref.Inst) bool {
	norm := func(s string) string {
		switch s {
		case "SAL":
			return "SHL"
		case "RETN":
			return "RET"
		case "REPZ":
			return "REPE"
		case "REPNZ":
			return "REPNE"
		case "PUSHAW":
			return "PUSHA"
		case "POPAW":
			return "POPA"
		case "PUSHFW":
			return "PUSHF"
		case "POPFW":
			return "POPF"
		case "IRETW":
			return "IRET"
		}
		return s
	}
	mn = norm(mn)
	if len(in.Names) > 0 {
		for _, n := range in.Names {
			if norm(n) == mn {
				return true
			}
		}
		return false
	}
	if in.Op == "Jcc" {
		cc, ok := ccOf[mn]
		return ok && cc == in.CC
	}
	if in.Op == "INT3" {
		return mn == "INT3" || mn == "INT"
	}
	return norm(in.Op) == mn
}

func c07OperandMatches(k opKind, o x86ref.Operand) bool {
	switch k.name {
	case "r8", "r16", "r32":
		return o.Kind == "reg" && o.Reg == k.text
	case "sreg":
		return o.Kind == "sreg" && o.Reg == k.text
	case "creg":
		return o.Kind == "creg" && o.Reg == k.text
	case "imm8", "imm16", "imm32":
		return o.Kind == "imm" || o.Kind == "rel"
	case "mem":
		return o.Kind == "mem" && o.Mem.Base == "BX" && o.Mem.Index == ""
	case "mem8":
		return o.Kind == "mem" && o.Mem.Base == "BX" && o.Size == 8
	case "mem16":
		return o.Kind == "mem" && o.Mem.Base == "BX" && o.Size == 16
	case "label":
		return o.Kind == "imm" || o.Kind == "rel" || (o.Kind == "mem" && o.Mem.Base == "" && o.Mem.Index == "")
	case "far":
		return o.Kind == "far" && o.Seg == 8 && o.Off == 0x10
	}
	return false // undef, str: nothing they could legitimately denote in an instruction
}

func c07Case(mn string, ks []opKind) *core.Case {
	var texts, names []string
	for _, k := range ks {
		texts = append(texts, k.text)
		names = append(names, k.name)
	}
	stmt := mn
	if len(ks) > 0 {
		stmt += " " + strings.Join(texts, ",")
	}
	src := "pre:\n" + sentinelLine(0) + "\t" + stmt + "\n" + sentinelLine(1)
	base := "pre:\n" + sentinelLine(0) + sentinelLine(1)
	isDir := c07Directives[mn]
	return &core.Case{
		Key:  stmt,
		Feat: feat("mn", mn, "arity", fmt.Sprint(len(ks)), "kinds", strings.Join(names, ","), "directive", fmt.Sprint(isDir)),
		Srcs: []string{src, base},
		Judge: func(rs []*core.Result) core.Verdict {
			r := rs[0]
			v := core.Verdict{}
			if core.ReportsDiag(r, rs[1]) {
				v.Outcome = "diagnosed"
				if r.Panic != "" {
					v.Outcome = "panicked(C13)"
				}
				return v
			}
			region, ok := between(r.Out, 0, 1)
			if !ok {
				v.Outcome = "layout_broken"
				v.Fails = []core.Fail{{Facet: "layout", Dev: "sentinels_lost", Detail: hexs(r.Out)}}
				return v
			}
			v.Nontrivial = true
			v.NTKey = stmt
			if isDir {
				v.Outcome = "directive_accepted"
				for _, k := range ks {
					switch k.name {
					case "r8", "r16", "r32", "sreg", "creg", "mem", "mem8", "mem16", "undef", "far":
						v.Fails = []core.Fail{{Facet: "accepted_invalid", Dev: "directive_operand:" + k.name, Detail: fmt.Sprintf("%s assembled silently to %x", stmt, region)}}
						return v
					case "str":
						if mn != "DB" {
							v.Fails = []core.Fail{{Facet: "accepted_invalid", Dev: "directive_operand:str", Detail: fmt.Sprintf("%s assembled silently to %x", stmt, region)}}
							return v
						}
					}
				}
				if len(ks) == 0 && mn != "END" {
					v.Fails = []core.Fail{{Facet: "accepted_invalid", Dev: "directive_without_operand", Detail: fmt.Sprintf("%s assembled silently to %x", stmt, region)}}
				}
				return v
			}
			if len(region) == 0 {
				v.Outcome = "dropped"
				v.Fails = []core.Fail{{Facet: "dropped_silently", Dev: "no_bytes", Detail: stmt + ": no bytes, no diagnostic, exit status 0"}}
				return v
			}
			in, err := x86ref.Decode(region, 16)
			if err != nil {
				v.Outcome = "accepted_unknown_encoding"
				return v
			}
			v.Outcome = "accepted_decodable"
			if !c07NameMatches(mn, in) {
				v.Fails = []core.Fail{{Facet: "accepted_invalid", Dev: "other_instruction", Detail: fmt.Sprintf("%s assembled silently to % X = %s", stmt, region, in)}}
				return v
			}
			if in.Len != len(region) {
				v.Fails = []core.Fail{{Facet: "accepted_invalid", Dev: "extra_bytes", Detail: fmt.Sprintf("%s assembled to % X, of which %s covers %d bytes", stmt, region, in, in.Len)}}
				return v
			}
			ops := in.Ops
			want := ks
			if mn == "IMUL" && len(ks) == 2 && len(ops) == 3 && ops[0].Kind == "reg" && ops[1].Kind == "reg" && ops[0].Reg == ops[1].Reg {
				ops = []x86ref.Operand{ops[0], ops[2]}
			}
			if (mn == "INT" || mn == "INT3") && in.Op == "INT3" && len(ks) <= 1 {
				return v
			}
			if len(ops) != len(want) {
				dev := "operand_count"
				if len(ops) < len(want) {
					dev = "operand_ignored"
				}
				v.Fails = []core.Fail{{Facet: "accepted_invalid", Dev: dev, Detail: fmt.Sprintf("%s assembled silently to % X = %s", stmt, region, in)}}
				return v
			}
			for i, k := range want {
				if !c07OperandMatches(k, ops[i]) {
					dev := "operand_mismatch:" + k.name
					v.Fails = []core.Fail{{Facet: "accepted_invalid", Dev: dev, Detail: fmt.Sprintf("%s assembled silently to % X = %s", stmt, region, in)}}
					return v
				}
			}
			return v
		},
	}
}

func c07Scenarios(tier string) []*core.Scenario {
	mns := grammarMnemonics
	var scs []*core.Scenario
	arity := func(name string, maxAr int, kinds []opKind, mnList []string) *core.Scenario {
		return &core.Scenario{
			Name: name, Bound: -1,
			Rule:   fmt.Sprintf("%d mnemonics x every operand list of arity 0..%d over %d operand kinds, embedded between two sentinels; a statement that is accepted without any diagnostic must have emitted bytes, and if those bytes are decodable they must denote the statement (same operation, same operands); directives must not accept operands they cannot represent; non-trivial = accepted without diagnostic", len(mnList), maxAr, len(kinds)),
			Bounds: map[string]any{"mnemonics": len(mnList), "max_arity": maxAr, "kinds": kinds},
			Build: func(c *core.Chooser) *core.Case {
				mn := mnList[c.Pick("mn", len(mnList))]
				ar := c.Pick("arity", maxAr+1)
				var ks []opKind
				for i := 0; i < ar; i++ {
					ks = append(ks, kinds[c.Pick(fmt.Sprintf("k%d", i), len(kinds))])
				}
				if strings.HasPrefix(mn, "RES") && len(ks) > 0 && ks[0].name == "imm32" {
					return nil // RESB 0x12345678 legitimately writes 305 MB; not a useful case
				}
				return c07Case(mn, ks)
			},
		}
	}
	if tier == "thorough" {
		scs = append(scs, arity("all_arity2", 2, c07Kinds, mns))
		six := []opKind{c07Kinds[1], c07Kinds[2], c07Kinds[5], c07Kinds[8], c07Kinds[11], c07Kinds[12]}
		scs = append(scs, arity("all_arity3_six_kinds", 3, six, mns))
	} else {
		scs = append(scs, arity("all_arity1", 1, c07Kinds, mns))
		eight := []opKind{c07Kinds[0], c07Kinds[1], c07Kinds[2], c07Kinds[3], c07Kinds[5], c07Kinds[6], c07Kinds[8], c07Kinds[12]}
		var handled []string
		for _, m := range []string{"MOV", "ADD", "ADC", "SUB", "SBB", "CMP", "INC", "DEC", "NEG", "MUL", "IMUL", "DIV", "IDIV", "AND", "OR", "XOR", "NOT", "SHR", "SHL", "SAR", "IN", "OUT",
			"CALL", "LGDT", "PUSH", "POP", "RET", "INT", "JMP", "JE", "JNZ", "JA", "HLT", "NOP", "CLI", "DB", "DW", "DD", "RESB", "ALIGNB", "ORG", "LEA", "TEST", "XCHG", "MOVZX", "LOOP"} {
			handled = append(handled, m)
		}
		scs = append(scs, arity("common_arity2", 2, eight, handled))
	}
	// undefined symbols in every operand position of supported statements, with a label after them
	undefSyms := []string{"undef_sym", "U2", "MESSAGE", "XDISK", "NO_TABLE", "e820h"} // incl. names that contain register names / look like numbers
	undefStmts := []string{"MOV AX,{U}", "MOV {U},AX", "MOV AX,[{U}]", "MOV [{U}],AX", "ADD CX,{U}", "CMP AL,{U}", "MOV BYTE [{U}],1", "MOV BYTE [BX],{U}", "MOV AX,[BX+{U}]",
		"DB {U}", "DW {U}", "DD {U}", "DB 1,{U},2", "RESB {U}", "RESB {U}-$", "ALIGNB {U}", "ORG {U}", "JMP {U}", "JE {U}", "CALL {U}", "JMP DWORD 8:{U}", "JMP DWORD {U}:0", "PUSH {U}",
		"INT {U}", "IN AL,{U}", "OUT {U},AL", "LGDT [{U}]", "SHL AX,{U}", "IMUL CX,{U}", "X EQU {U}", "X EQU {U}+1", "GLOBAL {U}", "AND EAX,{U}", "MOV ECX,[ESP+{U}]"}
	scs = append(scs, &core.Scenario{
		Name: "undefined_symbols", Bound: -1,
		Rule:   "an undefined symbol in every operand position of every supported statement, followed by a defined label and data: the run must produce a diagnostic (a silently substituted value or dropped statement is a failure); non-trivial = every case (all are negative cases: distinctness by statement)",
		Bounds: map[string]any{"statements": len(undefStmts), "symbols": undefSyms},
		Build: func(c *core.Chooser) *core.Case {
			st := undefStmts[c.Pick("stmt", len(undefStmts))]
			u := undefSyms[c.Pick("sym", len(undefSyms))]
			stmt := strings.ReplaceAll(st, "{U}", u)
			after := ""
			if strings.HasPrefix(st, "X EQU") {
				after = "\tDB X\n"
			}
			// the name may be DECLARED (EXTERN before or after the use, GLOBAL) without being defined: a flat binary has no
			// relocations, so a reference to it still cannot be assembled; the declaration line is in the baseline too
			decl := c.Str("declared", "", "EXTERN_before", "EXTERN_after", "GLOBAL_before")
			declBefore, declAfter := "", ""
			if decl != "" {
				if u != undefSyms[0] || strings.HasPrefix(st, "GLOBAL") {
					return nil // declarations are explored with the plain name only
				}
				kw := strings.SplitN(decl, "_", 2)
				if kw[1] == "before" {
					declBefore = "\t" + kw[0] + " " + u + "\n"
				} else {
					declAfter = "\t" + kw[0] + " " + u + "\n"
				}
			}
			src := declBefore + "pre:\n" + sentinelLine(0) + stmtLine(stmt) + after + "post:\n" + sentinelLine(1) + "\tDW post\n" + declAfter
			base := declBefore + "pre:\n" + sentinelLine(0) + "post:\n" + sentinelLine(1) + "\tDW post\n" + declAfter
			return &core.Case{
				Key:  stmt + map[bool]string{true: " (" + decl + ")", false: ""}[decl != ""],
				Feat: feat("stmt", st, "sym", u, "declared", decl),
				Srcs: []string{src, base},
				Judge: func(rs []*core.Result) core.Verdict {
					v := core.Verdict{Nontrivial: true, NTKey: stmt}
					if core.ReportsDiag(rs[0], rs[1]) {
						v.Outcome = "diagnosed"
						return v
					}
					v.Outcome = "accepted"
					region, _ := between(rs[0].Out, 0, 1)
					v.Fails = []core.Fail{{Facet: "undefined_symbol", Dev: "accepted_silently", Detail: fmt.Sprintf("%s assembled without any diagnostic to %x", stmt, region)}}
					return v
				},
			}
		}})
	// addresses no addressing form can express, in every instruction that takes a memory operand
	badMem := []string{"[SI+DI]", "[BX+BP]", "[DI+SI]", "[CX+SI]", "[AX+BX]", "[BX+BX]", "[SP+BP]", "[CX]", "[AX+DX]", "[SP]", "[DX+4]", "[BX+SI+DI]",
		"[BX+EAX]", "[EAX+SI]", "[EAX+ESP*2]", "[ESP*2]", "[BX*2]", "[EAX*3]", "[EAX*2+EBX*2]", "[EAX+EBX+ECX]", "[AL]", "[ES]", "[CR0]", "[BX+CL]"}
	memStmts := []string{"MOV AX,{M}", "MOV {M},AX", "MOV AL,{M}", "MOV BYTE {M},1", "MOV WORD {M},1", "ADD CX,{M}", "ADD WORD {M},1", "SUB {M},CX", "CMP BYTE {M},0", "AND WORD {M},0x0f",
		"OR {M},AL", "XOR EAX,{M}", "NOT WORD {M}", "SHL WORD {M},1", "SAR BYTE {M},CL", "PUSH WORD {M}", "POP WORD {M}", "IMUL CX,{M}", "LGDT {M}", "MOV ES,{M}", "MOV {M},DS"}
	scs = append(scs, &core.Scenario{
		Name: "unencodable_addresses", Bound: -1,
		Rule:   "every memory-taking statement form x every address text that no 16- or 32-bit addressing form can express (two index registers, non-address registers, mixed widths, ESP as scaled index, scale 3, three registers, 8-bit/segment/control registers): the run must produce a diagnostic or emit nothing for the statement; bytes without a diagnostic denote some OTHER address",
		Bounds: map[string]any{"statements": memStmts, "addresses": badMem},
		Build: func(c *core.Chooser) *core.Case {
			st := memStmts[c.Pick("stmt", len(memStmts))]
			m := badMem[c.Pick("mem", len(badMem))]
			mode := []int{16, 32}[c.Pick("mode", 2)]
			stmt := strings.ReplaceAll(st, "{M}", m)
			head := bitsHeader(mode)
			src := head + "pre:\n" + sentinelLine(0) + stmtLine(stmt) + "post:\n" + sentinelLine(1) + "\tDW post\n"
			base := head + "pre:\n" + sentinelLine(0) + "post:\n" + sentinelLine(1) + "\tDW post\n"
			return &core.Case{
				Key:  fmt.Sprintf("BITS %d|%s", mode, stmt),
				Feat: feat("stmt", st, "mem", m, "mode", fmt.Sprint(mode)),
				Srcs: []string{src, base},
				Judge: func(rs []*core.Result) core.Verdict {
					v := core.Verdict{Nontrivial: true, NTKey: stmt}
					if core.ReportsDiag(rs[0], rs[1]) {
						v.Outcome = "diagnosed"
						return v
					}
					v.Outcome = "accepted"
					region, _ := between(rs[0].Out, 0, 1)
					dev := "accepted_silently"
					if len(region) == 0 {
						dev = "dropped_silently"
					}
					v.Fails = []core.Fail{{Facet: "unencodable_address", Dev: dev, Detail: fmt.Sprintf("%s assembled without any diagnostic to %x", stmt, region)}}
					return v
				},
			}
		}})
	// a mnemonic glued to what follows (PUSH1, RETURN, MOVAX,1, HLTX): not a statement of the language
	glue := []string{"1", "X", "AX", "AX,1", "URN", "_", "0x10", "B", "S", ".", "$"}
	scs = append(scs, &core.Scenario{
		Name: "glued_mnemonics", Bound: -1,
		Rule:   "every grammar mnemonic directly followed (no blank) by 11 identifier-like suffixes: unless the concatenation is itself a mnemonic, the line is no statement and must be diagnosed - assembling it as the shorter mnemonic plus an operand is a silent mis-assembly",
		Bounds: map[string]any{"mnemonics": len(grammarMnemonics), "suffixes": glue},
		Build: func(c *core.Chooser) *core.Case {
			mn := grammarMnemonics[c.Pick("mn", len(grammarMnemonics))]
			g := glue[c.Pick("glue", len(glue))]
			word := mn + g
			head := word
			if i := strings.IndexAny(word, ","); i >= 0 {
				head = word[:i]
			}
			for _, other := range grammarMnemonics {
				if other == head {
					return nil // e.g. REP + E = REPE, PUSH + AD = PUSHAD: a different, real mnemonic
				}
			}
			src := "pre:\n" + sentinelLine(0) + "\t" + word + "\n" + "post:\n" + sentinelLine(1) + "\tDW post\n"
			base := "pre:\n" + sentinelLine(0) + "post:\n" + sentinelLine(1) + "\tDW post\n"
			return &core.Case{
				Key:  word,
				Feat: feat("mn", mn, "glue", g),
				Srcs: []string{src, base},
				Judge: func(rs []*core.Result) core.Verdict {
					v := core.Verdict{Nontrivial: true, NTKey: word}
					if core.ReportsDiag(rs[0], rs[1]) {
						v.Outcome = "diagnosed"
						return v
					}
					v.Outcome = "accepted"
					region, _ := between(rs[0].Out, 0, 1)
					v.Fails = []core.Fail{{Facet: "glued_mnemonic", Dev: "accepted_silently", Detail: fmt.Sprintf("%q assembled without any diagnostic to %x", word, region)}}
					return v
				},
			}
		}})
	// file-level shapes
	prefixes := []string{"", "\n", " \n", ";c\n", "\n\n", "\t\n"}
	firsts := []string{"\tMOV AX,1\n", "\tmov ax,1\n", "\t@@@\n", "\tMOV AX,\n", "lab:\n", "\tFOO AX\n", "\tDB 1\n\t)\n", "\tMOV AX,1 2\n"}
	scs = append(scs, &core.Scenario{
		Name: "file_shapes", Bound: -1,
		Rule:   "file prefix {nothing, blank lines, comment} x first line {valid, lower-case mnemonic, garbage, truncated statement, label, unknown mnemonic, stray token} x a valid rest: if the run is silent and exits 0, every statement must be represented - in particular the trailing valid statements' bytes must be present",
		Bounds: map[string]any{"prefixes": prefixes, "first_lines": firsts},
		Build: func(c *core.Chooser) *core.Case {
			p := prefixes[c.Pick("prefix", len(prefixes))]
			f := firsts[c.Pick("first", len(firsts))]
			rest := sentinelLine(0) + "\tDB 0x42\n" + sentinelLine(1)
			src := p + f + rest
			fi := fmt.Sprint(c.Pick("dummy", 1))
			_ = fi
			return &core.Case{
				Key:  fmt.Sprintf("%q", p+f),
				Feat: feat("prefix", fmt.Sprintf("%q", p), "first", fmt.Sprintf("%q", f)),
				Srcs: []string{src},
				Judge: func(rs []*core.Result) core.Verdict {
					v := core.Verdict{Nontrivial: true}
					r := rs[0]
					if core.ReportsDiag(r, nil) {
						v.Outcome = "diagnosed"
						return v
					}
					v.Outcome = "accepted"
					reg, ok := between(r.Out, 0, 1)
					if !ok || len(reg) != 1 || reg[0] != 0x42 {
						dev := "rest_of_file_ignored"
						if len(r.Out) > 0 {
							dev = "rest_of_file_damaged"
						}
						v.Fails = []core.Fail{{Facet: "dropped_silently", Dev: dev, Detail: fmt.Sprintf("source %q: exit 0, no diagnostic, output %x", src, r.Out)}}
					}
					return v
				},
			}
		}})
	return scs
}

var c07SigRe = regexp.MustCompile(`[0-9]+|'[^']*'|"[^"]*"|\b[A-Z][A-Z0-9]{1,7}\b`)

// c07CLI: one representative statement per distinct diagnostic message the in-process run
// produces, re-run through the REAL command: the diagnostic must be visible there as well (the
// command configures its own logger; the worker only mirrors that configuration).
func c07CLI(r *core.Run, tier string) {
	t0 := time.Now()
	p := r.Cfg.Pool
	base := "pre:\n" + sentinelLine(0) + sentinelLine(1)
	reps := map[string]string{}
	var order []string
	for _, mn := range grammarMnemonics {
		for ki := -1; ki < len(c07Kinds); ki++ {
			var ks []opKind
			if ki >= 0 {
				ks = []opKind{c07Kinds[ki]}
			}
			if strings.HasPrefix(mn, "RES") && ki >= 0 && c07Kinds[ki].name == "imm32" {
				continue
			}
			cs := c07Case(mn, ks)
			res := p.Exec(cs.Srcs[0])
			if res.Died || res.Panic != "" {
				continue
			}
			if !core.ReportsDiag(res, p.Exec(base)) {
				continue
			}
			lines := core.ErrLines(res)
			sig := "hard"
			if len(lines) > 0 {
				sig = c07SigRe.ReplaceAllString(lines[0], "#")
			} else if res.ParseErr != "" {
				sig = "parse_error"
			}
			if _, ok := reps[sig]; !ok {
				reps[sig] = cs.Srcs[0]
				order = append(order, sig)
			}
		}
	}
	cliBase := p.CLI(base, nil, false)
	var mu sync.Mutex
	var wg sync.WaitGroup
	sem := make(chan struct{}, p.N)
	var n int64
	for _, sig := range order {
		wg.Add(1)
		sem <- struct{}{}
		go func(sig, src string) {
			defer wg.Done()
			defer func() { <-sem }()
			c := p.CLI(src, nil, false)
			mu.Lock()
			n++
			mu.Unlock()
			if !core.ReportsDiag(c, cliBase) {
				r.AddFail("cli_diagnostics", "signature "+sig, map[string]string{"sig": sig}, []string{src},
					core.Fail{Facet: "cli_diagnostic_lost", Dev: "silent_in_cli", Detail: fmt.Sprintf("in process the statement is diagnosed (%s); the real command prints no diagnostic and exits %d", sig, c.ExitCode)})
			}
			r.AddNT("clisig|" + sig)
		}(sig, reps[sig])
	}
	wg.Wait()
	// shapes that only the real command's reading of the file can spoil: very long lines, very many lines, a
	// missing final newline, CR-only line ends - silent and exit 0 means every statement must be in the output
	shapes := map[string]string{}
	{
		var sb strings.Builder
		sb.WriteString("\tDB 0x11\n\tDB 1")
		for i := 0; i < 20000; i++ {
			sb.WriteString(",2")
		}
		sb.WriteString("\n\tDB 0x33\n")
		shapes["line_of_70_KB"] = sb.String()
		sb.Reset()
		for i := 0; i < 30000; i++ {
			sb.WriteString("\tDB 7\n")
		}
		shapes["30000_lines"] = sb.String()
		shapes["comment_of_70_KB_then_code"] = "\tDB 1 ; " + strings.Repeat("c", 70000) + "\n\tDB 2\n"
		shapes["string_of_70_KB"] = "\tDB \"" + strings.Repeat("s", 70000) + "\"\n\tDB 2\n"
	}
	for name, src := range shapes {
		api := p.ExecTimed(src, 10*time.Minute)
		c := p.CLI(src, nil, false)
		n++
		if c.ExitCode == 0 && !core.ReportsDiag(c, cliBase) && !api.Died && !core.ReportsDiag(api, nil) && !bytes.Equal(c.Out, api.Out) {
			dev := fmt.Sprintf("output_truncated:%d_of_%d", len(c.Out), len(api.Out))
			r.AddFail("cli_shapes", name, map[string]string{"shape": name}, []string{src},
				core.Fail{Facet: "cli_statements_lost", Dev: dev, Detail: fmt.Sprintf("the real command exits 0 without a diagnostic but wrote %d bytes; the same source assembled in process gives %d bytes", len(c.Out), len(api.Out))})
		}
		r.AddNT("clishape|" + name)
	}
	// a statement that only pass 1 can refuse, in front of tens of thousands of ordinary statements: the diagnostic must
	// still be there at the end of the run (pass-1 messages are buffered while branch forms are settled), in process and
	// through the command
	{
		for _, bad := range []string{"\tDW table_end\n", "\tDB undefined_name\n", "\tRESB nowhere\n"} {
			long := bad + strings.Repeat("\tNOP\n", 40000) + "table_end:\n\tHLT\n"
			ref := "\tDB 1\n" + strings.Repeat("\tNOP\n", 40000) + "table_end:\n\tHLT\n"
			api, apiRef := p.ExecTimed(long, 10*time.Minute), p.ExecTimed(ref, 10*time.Minute)
			c, cRef := p.CLI(long, nil, false), p.CLI(ref, nil, false)
			n += 2
			name := "refused_statement_then_40000_statements|" + strings.TrimSpace(bad)
			if !api.Died && !core.ReportsDiag(api, apiRef) {
				r.AddFail("cli_shapes", name+"|api", map[string]string{"shape": "early_error_long_source"}, nil,
					core.Fail{Facet: "undefined_symbol", Dev: "diagnostic_lost_in_long_source", Detail: fmt.Sprintf("in process: no diagnostic for %q in front of 40000 statements (%d bytes written)", strings.TrimSpace(bad), len(api.Out))})
			}
			if c.ExitCode == 0 && !core.ReportsDiag(c, cRef) {
				r.AddFail("cli_shapes", name+"|command", map[string]string{"shape": "early_error_long_source"}, nil,
					core.Fail{Facet: "undefined_symbol", Dev: "diagnostic_lost_in_long_source", Detail: fmt.Sprintf("the command: no diagnostic for %q in front of 40000 statements (%d bytes written, exit 0)", strings.TrimSpace(bad), len(c.Out))})
			}
			r.AddNT("clishape|" + name)
		}
	}
	r.AddSample(map[string]any{"cli_diagnostic_representative": order[0]})
	r.AddCustom("cli_diagnostics", "one representative statement for each distinct diagnostic message observed in process over the arity<=1 space, re-run through the real command: a diagnostic must be visible there too",
		map[string]any{"distinct_messages": len(order)}, n+1, n, n, n, 1, true, time.Since(t0).Seconds())
}

func init() {
	register(&Property{
		ID:        "C07",
		Custom:    c07CLI,
		Scenarios: c07Scenarios,
		Assumptions: []string{
			"a diagnostic is: non-zero exit, a GOSK message, a parse error, a log line at warning level or above, or any log line whose message starts with error/err:/warning/warn, attributable to the statement (differential against the same program without it)",
			"accepted statements are judged only as far as can be decided without a full validity model of x86: no bytes = dropped; bytes that the reference decoder can read must denote the written mnemonic and operands; bytes it cannot read are counted as accepted_unknown_encoding and not judged further",
			"what correctly assembled statements must look like in detail is C01-C05's subject",
		},
	})
}
