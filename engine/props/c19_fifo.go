package props

import (
	"bytes"
	"fmt"
	"os"
	"path/filepath"
	"syscall"
	"time"

	"verifengine/core"
)

// c19SpecialSource: the source given as a named pipe (a readable file whose stat size is 0). Either the command
// reads it like any other file - then it exits 0 and the output holds the assembled bytes - or it refuses it with a
// non-zero exit; "exit 0 with something else in the output file" is what must not happen.
func c19SpecialSource(r *core.Run) {
	t0 := time.Now()
	p := r.Cfg.Pool
	var spawns int64
	for i, src := range []string{c19Valid, c19Obj, "\tDB 1,2,3\n"} {
		want := p.Exec(src).Out
		dir, err := os.MkdirTemp(p.TmpDir, "fifo")
		if err != nil {
			continue
		}
		fifo := filepath.Join(dir, "src.nas")
		if err := syscall.Mkfifo(fifo, 0o644); err != nil {
			os.RemoveAll(dir)
			continue // no named pipes here: nothing to explore
		}
		done := make(chan struct{})
		go func() {
			defer close(done)
			f, err := os.OpenFile(fifo, os.O_WRONLY, 0) // blocks until the command opens the pipe for reading
			if err != nil {
				return
			}
			f.Write([]byte(src))
			f.Close()
		}()
		exit, so, se, to := p.RunCLIArgs(dir, []string{"src.nas", "out.bin"})
		spawns++
		select {
		case <-done:
		default: // the command never opened the pipe: release the writer
			if rf, err := os.OpenFile(fifo, os.O_RDONLY|syscall.O_NONBLOCK, 0); err == nil {
				time.Sleep(50 * time.Millisecond)
				rf.Close()
			}
			<-done
		}
		got, rerr := os.ReadFile(filepath.Join(dir, "out.bin"))
		key := fmt.Sprintf("source %d given as a named pipe", i)
		feat := map[string]string{"special": "fifo", "prog": fmt.Sprint(i)}
		switch {
		case to:
			r.AddFail("special_source", key, feat, []string{src}, core.Fail{Facet: "hang", Dev: "timeout", Detail: "the command did not terminate"})
		case exit == 0 && (rerr != nil || !bytes.Equal(got, want)):
			r.AddFail("special_source", key, feat, []string{src}, core.Fail{Facet: "output_file", Dev: "exit_0_without_the_assembled_bytes", Detail: fmt.Sprintf("exit 0, output %x (err %v), the source assembles to %x; stdout %s stderr %s", got, rerr, want, trunc(so, 80), trunc(se, 80))})
		}
		r.AddNT("special_source|" + key)
		os.RemoveAll(dir)
	}
	r.AddCustom("special_source", "3 sources handed to the REAL command as a named pipe (stat size 0, content arrives when the command opens it): exit 0 implies the output file holds exactly the assembled bytes; a refusal (non-zero exit) is accepted",
		map[string]any{"sources": 3}, spawns+1, spawns, spawns, spawns, 1, true, time.Since(t0).Seconds())
}
