package props

import (
	"bytes"
	"fmt"
	"strings"

	"verifengine/core"
)

// C11, scenario equ_label_alias: an EQU name whose defining expression is a label (not a number).
// "Using an EQU name anywhere an expression is allowed is indistinguishable from writing its parenthesised
// defining expression" holds for such names too; the constant-valued programs of equ_abstraction never
// reach the code that carries an unreduced expansion (label name) through memory operands and branches.
func c11AliasScenario() *core.Scenario {
	uses := []string{"MOV AX,{N}", "MOV EBX,{N}", "MOV AX,[{N}]", "MOV [{N}],CL", "MOV WORD [{N}],1", "MOV ECX,[{N}]", "ADD AX,[{N}]", "CMP BYTE [{N}],0",
		"NOT WORD [{N}]", "SHL BYTE [{N}],1", "PUSH WORD [{N}]", "DW {N}", "DD {N}", "JMP {N}", "JE {N}", "CALL {N}", "LGDT [{N}]", "IMUL CX,[{N}]"}
	targets := []string{"lab", "fwd", "start"}
	return &core.Scenario{
		Name: "equ_label_alias", Bound: -1,
		Rule:   "an EQU name defined as a label (backward, forward or the first label of the file), directly or through a second name, defined before the label / just before the use, used in one of the stated statements x BITS x ORG; the program must be byte-identical to the one with the parenthesised label written in place; non-trivial = the inlined program assembled",
		Bounds: map[string]any{"uses": uses, "targets": targets, "depth": []int{1, 2}, "placements": []string{"first", "before_use"}, "modes": []int{16, 32}, "origins": []string{"none", "0x7c00"}},
		Build: func(c *core.Chooser) *core.Case {
			mode := []int{16, 32}[c.Pick("mode", 2)]
			org := c.Pick("org", 2)
			use := uses[c.Pick("use", len(uses))]
			tgt := targets[c.Pick("target", len(targets))]
			depth := 1 + c.Pick("depth", 2)
			place := c.Pick("place", 2) // a use before the definition is refused for every kind of EQU (numeric ones too): outside the space
			paren := c.Bool("paren_body")
			hdr := ""
			if mode == 32 {
				hdr = "[BITS 32]\n"
			}
			if org == 1 {
				hdr += "\tORG 0x7c00\n"
			}
			body := tgt
			if paren {
				body = "(" + tgt + ")"
			}
			defs := "ALIAS EQU " + body + "\n"
			name := "ALIAS"
			if depth == 2 {
				defs += "Alias2 EQU ALIAS\n"
				name = "Alias2"
			}
			prog := func(defsAt int, operand string) string {
				var sb strings.Builder
				sb.WriteString(hdr)
				if defsAt == 0 {
					sb.WriteString(defs)
				}
				sb.WriteString("start:\n\tNOP\nlab:\n\tDB 1,2\n")
				if defsAt == 1 {
					sb.WriteString(defs)
				}
				sb.WriteString("\t" + strings.ReplaceAll(use, "{N}", operand) + "\n")
				sb.WriteString("\tDB 0x90\nfwd:\n\tDW 0x1234,0,0\n")
				if defsAt == 2 {
					sb.WriteString(defs)
				}
				return sb.String()
			}
			withNames := prog(place, name)
			inlined := prog(-1, "("+tgt+")")
			return &core.Case{
				Key:       fmt.Sprintf("BITS %d|org=%d|%s|%s EQU %s|depth=%d|place=%d", mode, org, use, "ALIAS", body, depth, place),
				Feat:      feat("mode", fmt.Sprint(mode), "use", use, "target", tgt, "depth", fmt.Sprint(depth), "place", fmt.Sprint(place)),
				FreshRefs: true, Srcs: []string{withNames, inlined},
				Judge: func(rs []*core.Result) core.Verdict {
					v := core.Verdict{}
					if core.ReportsError(rs[1], nil) {
						v.Outcome = "inlined_diagnosed"
						return v
					}
					v.Outcome = "assembled"
					v.Nontrivial = true
					if core.ReportsError(rs[0], nil) {
						v.Fails = []core.Fail{{Facet: "equ", Dev: "diagnosed_only_with_names", Detail: errSummary(rs[0])}}
					} else if !bytes.Equal(rs[0].Out, rs[1].Out) {
						dev := "bytes_differ"
						if len(rs[0].Out) != len(rs[1].Out) {
							dev = fmt.Sprintf("length:%+d", len(rs[0].Out)-len(rs[1].Out))
						}
						v.Fails = []core.Fail{{Facet: "equ", Dev: dev, Detail: fmt.Sprintf("with names %x, inlined %x", rs[0].Out, rs[1].Out)}}
					}
					return v
				},
			}
		},
	}
}
