package props

import (
	"bytes"
	"fmt"
	"strings"

	"verifengine/core"
)

// C05 — data directives emit exactly their operand values.

type dItem struct {
	text string
	kind string // num, expr, str, label, dollar
	val  int64
	str  string
}

func c05Alphabet() []dItem {
	n := func(t string, v int64) dItem { return dItem{text: t, kind: "num", val: v} }
	s := func(lit, v string) dItem { return dItem{text: lit, kind: "str", str: v} }
	return []dItem{
		n("0", 0), n("1", 1), n("-1", -1), n("127", 127), n("128", 128), n("255", 255), n("256", 256),
		n("-128", -128), n("-129", -129), n("65535", 65535), n("65536", 65536), n("-32768", -32768), n("-32769", -32769),
		n("0x7fffffff", 0x7fffffff), n("0x80000000", 0x80000000), n("0xffffffff", 0xffffffff), n("0x100000000", 0x100000000),
		{text: "(1+2)*3", kind: "expr", val: 9},
		n("'A'", 0x41), n("'z'", 0x7a), {text: "'0'+9", kind: "expr", val: 0x39},
		s(`"A"`, "A"), s(`"ab"`, "ab"), s(`""`, ""), s(`"a,b"`, "a,b"), s(`"a;b"`, "a;b"), s(`"a#b c"`, "a#b c"), s(`"it's"`, "it's"), s("\"caf\u00e9\"", "caf\u00e9"), s("\"\u65e5\u672c\"", "\u65e5\u672c"),
		{text: "back", kind: "label"},
		{text: "$", kind: "dollar"},
	}
}

func c05Expected(dir string, items []dItem, origin int64, stmtAddr int64) []byte {
	w := map[string]int{"DB": 1, "DW": 2, "DD": 4}[dir]
	var out []byte
	for _, it := range items {
		switch it.kind {
		case "num", "expr":
			out = append(out, le(it.val, w)...)
		case "str":
			out = append(out, []byte(it.str)...)
		case "label":
			out = append(out, le(origin, w)...)
		case "dollar":
			out = append(out, le(stmtAddr, w)...)
		}
	}
	return out
}

func c05JudgeRegion(r *core.Result, want []byte, origin int64, coreSupported bool) core.Verdict {
	v := core.Verdict{}
	if core.ReportsError(r, nil) {
		v.Outcome = "diagnosed"
		if coreSupported {
			v.Fails = append(v.Fails, core.Fail{Facet: "refused_supported", Dev: "diagnosed", Detail: errSummary(r)})
		}
		return v
	}
	got, ok := between(r.Out, 0, 1)
	if !ok {
		v.Outcome = "no_sentinels"
		v.Fails = append(v.Fails, core.Fail{Facet: "bytes", Dev: "sentinels_lost", Detail: "out=" + hexs(r.Out)})
		return v
	}
	v.Nontrivial = len(got) > 0
	v.NTKey = hexs(got)
	v.Outcome = "assembled"
	if !bytes.Equal(got, want) {
		dev := "byte_mismatch"
		if len(got) != len(want) {
			dev = fmt.Sprintf("len:%+d", len(got)-len(want))
		}
		v.Fails = append(v.Fails, core.Fail{Facet: "bytes", Dev: dev, Detail: fmt.Sprintf("want=%x got=%x", want, got)})
	}
	if !r.ViaCLI && !r.Died {
		if int64(r.LOC)-origin != int64(len(r.Out)) {
			v.Fails = append(v.Fails, core.Fail{Facet: "loc", Dev: fmt.Sprintf("loc-len:%+d", int64(r.LOC)-origin-int64(len(r.Out))),
				Detail: fmt.Sprintf("pass-1 LOC=%d origin=%d output length=%d", r.LOC, origin, len(r.Out))})
		}
	}
	return v
}

func c05Lists(maxLen int, longLens []int) *core.Scenario {
	alpha := c05Alphabet()
	return &core.Scenario{
		Name: "data_lists", Bound: -1,
		Rule:   "DB/DW/DD x every operand list of length 1..maxLen over the 27-item alphabet, plus rotations of the alphabet at the long lengths; non-trivial = assembled without diagnostic and emitted >=1 byte; distinct = distinct emitted byte strings",
		Bounds: map[string]any{"directives": []string{"DB", "DW", "DD"}, "alphabet": len(alpha), "max_len": maxLen, "long_lens": longLens, "origins": []string{"none", "0x7c00", "0x280000"}},
		Build: func(c *core.Chooser) *core.Case {
			dir := c.Str("dir", "DB", "DW", "DD")
			nShort := maxLen
			li := c.Pick("len", nShort+len(longLens))
			var items []dItem
			if li < nShort {
				for i := 0; i <= li; i++ {
					items = append(items, alpha[c.Pick(fmt.Sprintf("item%d", i), len(alpha))])
				}
			} else {
				L := longLens[li-nShort]
				rot := c.Pick("rot", len(alpha))
				for i := 0; i < L; i++ {
					items = append(items, alpha[(rot+i)%len(alpha)])
				}
			}
			origin := int64(0)
			org := ""
			hasAddr := false
			for _, it := range items {
				if it.kind == "label" || it.kind == "dollar" {
					hasAddr = true
				}
			}
			if hasAddr {
				switch c.Pick("org", 3) {
				case 1:
					origin = 0x7c00
					org = "\tORG 0x7c00\n"
				case 2: // label and $ values above 0xFFFF (haribote's bootpack lives at 0x280000)
					origin = 0x280000
					org = "\tORG 0x280000\n"
				}
			}
			var texts, kinds []string
			coreSupported := true
			seen := map[string]bool{}
			for _, it := range items {
				texts = append(texts, it.text)
				if !seen[it.kind] {
					seen[it.kind] = true
					kinds = append(kinds, it.kind)
				}
				if it.kind == "str" && dir != "DB" {
					coreSupported = false
				}
			}
			stmt := "\t" + dir + " " + strings.Join(texts, ",") + "\n"
			src := org + "back:\n" + sentinelLine(0) + stmt + sentinelLine(1)
			want := c05Expected(dir, items, origin, origin+8)
			ln := fmt.Sprint(len(items))
			return &core.Case{
				Key:  strings.TrimSpace(org) + "|" + strings.TrimSpace(stmt),
				Feat: feat("dir", dir, "len", ln, "kinds", strings.Join(kinds, "+"), "org", fmt.Sprint(origin)),
				Srcs: []string{src},
				Judge: func(rs []*core.Result) core.Verdict {
					return c05JudgeRegion(rs[0], want, origin, coreSupported)
				},
			}
		},
	}
}

func c05Resb(thorough bool) *core.Scenario {
	ns := []int{0, 1, 2, 3, 4, 5, 6, 7, 8, 9, 10, 11, 12, 13, 14, 15, 16, 17, 255, 256, 4096, 65536, -1, -2, -3}
	huge := map[int]string{-1: "0x100000003", -2: "0x100000000", -3: "4294967299"} // sizes that cannot be reserved: must be diagnosed
	return &core.Scenario{
		Name: "resb", Bound: -1,
		Rule:   "RESB n for the listed n, and RESB addr-$ for every reachable addr after k preceding bytes, x ORG; non-trivial = n>0 bytes reserved",
		Bounds: map[string]any{"n": ns, "dollar_targets": "origin+8+k+d for k in 0..5, d in 0..20 and {510,512}", "origins": []string{"none", "0x7c00", "0xc200"}},
		Build: func(c *core.Chooser) *core.Case {
			origin := int64(c.Int("org", 0, 0x7c00, 0xc200))
			org := ""
			if origin != 0 {
				org = fmt.Sprintf("\tORG 0x%x\n", origin)
			} else if c.Bool("org0") {
				org = "\tORG 0\n"
			}
			form := c.Str("form", "const", "dollar")
			var stmt string
			var want []byte
			pre := ""
			if form == "const" {
				n := ns[c.Pick("n", len(ns))]
				if n < 0 {
					hs := huge[n]
					src := org + sentinelLine(0) + "\tRESB " + hs + "\n" + sentinelLine(1)
					return &core.Case{
						Key:  strings.TrimSpace(org) + "||RESB " + hs,
						Feat: feat("dir", "RESB", "form", "huge", "org", fmt.Sprint(origin)),
						Srcs: []string{src},
						Judge: func(rs []*core.Result) core.Verdict {
							v := core.Verdict{Outcome: "diagnosed", Nontrivial: true}
							if !core.ReportsError(rs[0], nil) {
								reg, _ := between(rs[0].Out, 0, 1)
								v.Outcome = "accepted"
								v.Fails = []core.Fail{{Facet: "bytes", Dev: "unreservable_size_accepted", Detail: fmt.Sprintf("RESB %s assembled without error to %d bytes", hs, len(reg))}}
							}
							return v
						},
					}
				}
				stmt = fmt.Sprintf("\tRESB %d\n", n)
				want = make([]byte, n)
			} else {
				k := c.Pick("k", 6)
				ds := []int{0, 1, 2, 3, 4, 5, 6, 7, 8, 9, 10, 11, 12, 13, 14, 15, 16, 17, 18, 19, 20, 510, 512}
				d := ds[c.Pick("d", len(ds))]
				if k > 0 {
					pre = "\tDB " + strings.TrimSuffix(strings.Repeat("0x11,", k), ",") + "\n"
				}
				target := origin + 8 + int64(k) + int64(d)
				stmt = fmt.Sprintf("\tRESB 0x%x-$\n", target)
				want = append(bytes.Repeat([]byte{0x11}, k), make([]byte, d)...)
			}
			src := org + sentinelLine(0) + pre + stmt + sentinelLine(1)
			return &core.Case{
				Key:   strings.TrimSpace(org) + "|" + strings.TrimSpace(pre) + "|" + strings.TrimSpace(stmt),
				Feat:  feat("dir", "RESB", "form", form, "org", fmt.Sprint(origin)),
				Srcs:  []string{src},
				Judge: func(rs []*core.Result) core.Verdict { return c05JudgeRegion(rs[0], want, origin, true) },
			}
		},
	}
}

func c05Alignb() *core.Scenario {
	aligns := []int{1, 2, 4, 8, 16, 32, 64, 256}
	return &core.Scenario{
		Name: "alignb", Bound: -1,
		Rule:   "ALIGNB n x every residue of the current address x ORG (aligned and unaligned); non-trivial = padding > 0",
		Bounds: map[string]any{"n": aligns, "residues": "0..min(n,64)-1", "origins": []string{"none", "0x7c00", "0x7c01", "0x7c0a"}},
		Build: func(c *core.Chooser) *core.Case {
			origin := int64(c.Int("org", 0, 0x7c00, 0x7c01, 0x7c0a))
			org := ""
			if origin != 0 {
				org = fmt.Sprintf("\tORG 0x%x\n", origin)
			}
			n := aligns[c.Pick("n", len(aligns))]
			maxr := n
			if maxr > 64 {
				maxr = 64
			}
			r := c.Pick("residue", maxr)
			pre := ""
			if r > 0 {
				pre = fmt.Sprintf("\tRESB %d\n", r)
			}
			addr := origin + 8 + int64(r)
			pad := (int64(n) - addr%int64(n)) % int64(n)
			want := make([]byte, int64(r)+pad)
			src := org + sentinelLine(0) + pre + fmt.Sprintf("\tALIGNB %d\n", n) + sentinelLine(1)
			return &core.Case{
				Key:   fmt.Sprintf("ORG 0x%x|RESB %d|ALIGNB %d", origin, r, n),
				Feat:  feat("dir", "ALIGNB", "org", fmt.Sprintf("0x%x", origin), "org_mod_n", fmt.Sprint(origin%int64(n) != 0), "n", fmt.Sprint(n)),
				Srcs:  []string{src},
				Judge: func(rs []*core.Result) core.Verdict { return c05JudgeRegion(rs[0], want, origin, true) },
			}
		},
	}
}

func c05NonEmitting() *core.Scenario {
	stmts := []string{
		"X EQU 5", "X EQU 0x7c00+2", "lab1:", "lab1:\nlab2:", "GLOBAL back", "GLOBAL back, lab9", "EXTERN ext1", "EXTERN ext1, ext2",
		"[BITS 16]", "[BITS 32]", `[INSTRSET "i486p"]`, `[FILE "a.nas"]`, "[SECTION .text]", "; comment", "",
	}
	return &core.Scenario{
		Name: "non_emitting", Bound: -1,
		Rule:   "every non-emitting statement between two sentinels x ORG; trivial by construction (0 bytes expected) - distinctness counted on statement text",
		Bounds: map[string]any{"statements": stmts, "origins": []string{"none", "0", "0x7c00"}},
		Build: func(c *core.Chooser) *core.Case {
			oi := c.Pick("org", 3)
			origin := int64(0)
			org := ""
			if oi == 1 {
				org = "\tORG 0\n"
			} else if oi == 2 {
				org = "\tORG 0x7c00\n"
				origin = 0x7c00
			}
			st := stmts[c.Pick("stmt", len(stmts))]
			body := ""
			for _, l := range strings.Split(st, "\n") {
				if strings.HasSuffix(l, ":") || strings.Contains(l, " EQU ") {
					body += l + "\n"
				} else {
					body += "\t" + l + "\n"
				}
			}
			src := org + "back:\n" + sentinelLine(0) + body + sentinelLine(1) + "lab9:\n"
			return &core.Case{
				Key:  strings.TrimSpace(org) + "|" + st,
				Feat: feat("dir", "none", "stmt", st, "org", fmt.Sprint(origin)),
				Srcs: []string{src},
				Judge: func(rs []*core.Result) core.Verdict {
					v := c05JudgeRegion(rs[0], []byte{}, origin, true)
					v.Nontrivial = v.Outcome == "assembled"
					v.NTKey = st + org
					return v
				},
			}
		},
	}
}

// c05Sequences: every ordered triple of directive statements in one program (what one directive leaves behind
// - a shared buffer, a moved location counter, a section switch - must not change what the next one emits).
func c05Sequences(depth int) *core.Scenario { return c05SequencesIn(depth, false) }

// c05SequencesIn: coff=true puts the same statements, unframed at the end, into the .text section of a WCOFF object
// (the last statement of the tuple is the last statement of the section) and judges the section's raw data.
func c05SequencesIn(depth int, coff bool) *core.Scenario {
	type seqStmt struct {
		text func(origin int64) string
		emit func(addr, origin int64) []byte
	}
	fixed := func(t string, b ...byte) seqStmt {
		return seqStmt{func(int64) string { return t }, func(int64, int64) []byte { return b }}
	}
	zeros := func(n int64) []byte { return make([]byte, n) }
	align := func(n int64) seqStmt {
		return seqStmt{func(int64) string { return fmt.Sprintf("ALIGNB %d", n) }, func(addr, _ int64) []byte { return zeros((n - addr%n) % n) }}
	}
	alpha := []seqStmt{
		fixed("RESB 4", 0, 0, 0, 0), fixed("RESB 16", zeros(16)...), fixed("RESB 1", 0),
		{func(o int64) string { return fmt.Sprintf("RESB 0x%x-$", o+0x80) }, func(addr, o int64) []byte {
			if o+0x80 < addr {
				return nil // negative size: not a program of the space (pruned below)
			}
			return zeros(o + 0x80 - addr)
		}},
		fixed(`DB "GOSK",0x11,0x22`, 'G', 'O', 'S', 'K', 0x11, 0x22), fixed("DW 0x1234", 0x34, 0x12), fixed("DD 0x89abcdef", 0xef, 0xcd, 0xab, 0x89), fixed("DB 0xff", 0xff),
		{func(int64) string { return "DW $" }, func(addr, _ int64) []byte { return le(addr, 2) }},
		{func(int64) string { return "DD back" }, func(_, o int64) []byte { return le(o, 4) }},
		align(8), align(16),
		fixed("[SECTION .data]"), fixed("[SECTION .text]"), fixed("[BITS 32]"),
	}
	var names []string
	for _, a := range alpha {
		names = append(names, a.text(0))
	}
	scName := "directive_sequences"
	if coff {
		scName = "directive_sequences_in_coff"
	}
	return &core.Scenario{
		Name: scName, Bound: -1,
		Rule:   fmt.Sprintf("every ordered %d-tuple of %d directive statements (RESB incl. addr-$, DB/DW/DD incl. $ and a label, ALIGNB, section/BITS directives) in one program x ORG {none, 0x7c00}: the bytes between the sentinels must be the concatenation of what the directive model gives for each statement at its address", depth, len(alpha)),
		Bounds: map[string]any{"statements": names, "depth": depth, "origins": []string{"none", "0x7c00"}},
		Build: func(c *core.Chooser) *core.Case {
			origin := []int64{0, 0x7c00}[c.Pick("org", 2)]
			org := ""
			if origin != 0 {
				org = fmt.Sprintf("\tORG 0x%x\n", origin)
			}
			if coff {
				if origin != 0 {
					return nil // objects have no ORG
				}
				org = "[FORMAT \"WCOFF\"]\n[BITS 32]\n[FILE \"seq.nas\"]\n[SECTION .text]\n"
			}
			framed := c.Bool("framed") // unframed: the statements are the whole program (the first one is the first to emit)
			if coff && !framed {
				return nil
			}
			addr := origin + 8
			if !framed {
				addr = origin
			}
			var want []byte
			var body, key []string
			for d := 0; d < depth; d++ {
				a := alpha[c.Pick(fmt.Sprintf("s%d", d), len(alpha))]
				t := a.text(origin)
				b := a.emit(addr, origin)
				if b == nil && strings.Contains(t, "-$") {
					return nil
				}
				want = append(want, b...)
				addr += int64(len(b))
				body = append(body, "\t"+t+"\n")
				key = append(key, t)
			}
			src := org + "back:\n" + sentinelLine(0) + strings.Join(body, "") + sentinelLine(1)
			if coff {
				// opening sentinel, the statements, and NOTHING behind them: the tuple ends the section
				src = org + "back:\n" + sentinelLine(0) + strings.Join(body, "")
				return &core.Case{
					Key:  "WCOFF|" + strings.Join(key, " ; ") + " (last in section)",
					Feat: feat("dir", "seq_coff", "s0", key[0], "s1", key[1]),
					Srcs: []string{src},
					Judge: func(rs []*core.Result) core.Verdict {
						r := *rs[0]
						if core.HardFailure(&r) {
							return core.Verdict{Outcome: "failed_run", Fails: []core.Fail{{Facet: "refused_supported", Dev: "hard_failure", Detail: errSummary(&r)}}}
						}
						f := parseCOFF(r.Out)
						if len(f.Problems) > 0 || len(f.Sections) < 1 {
							return core.Verdict{Outcome: "bad_object", Fails: []core.Fail{{Facet: "bytes", Dev: "object_unreadable", Detail: strings.Join(f.Problems, "; ")}}}
						}
						r.Out = append(append([]byte{}, f.sectionData(rs[0].Out, 0)...), sentinelBytes(1)...) // closing sentinel supplied here
						r.ViaCLI = true                                                                       // no LOC rule for objects
						return c05JudgeRegion(&r, want, 0, true)
					},
				}
			}
			if !framed {
				src = org + "back:\n" + strings.Join(body, "")
				want = append(append(sentinelBytes(0), want...), sentinelBytes(1)...)
				src += sentinelLine(1) // closing sentinel only; the opening one is prepended to the output before judging
			}
			return &core.Case{
				Key:  strings.TrimSpace(org) + "|" + strings.Join(key, " ; ") + map[bool]string{true: "", false: " (first in file)"}[framed],
				Feat: feat("dir", "seq", "s0", key[0], "s1", key[1], "org", fmt.Sprint(origin), "framed", fmt.Sprint(framed)),
				Srcs: []string{src},
				Judge: func(rs []*core.Result) core.Verdict {
					if framed {
						return c05JudgeRegion(rs[0], want, origin, true)
					}
					r := *rs[0]
					r.Out = append(sentinelBytes(0), r.Out...)
					r.LOC += 8
					return c05JudgeRegion(&r, want[8:len(want)-8], origin, true)
				},
			}
		},
	}
}

func init() {
	register(&Property{
		ID:     "C05",
		Custom: c05CLI,
		Scenarios: func(tier string) []*core.Scenario {
			if tier == "thorough" {
				return []*core.Scenario{c05Lists(3, []int{4, 8, 16, 32, 64}), c05Resb(true), c05Alignb(), c05NonEmitting(), c05Sequences(3), c05SecondOrg(), c05SequencesIn(2, true), c05Escapes(), c05BehindGrownBranch()}
			}
			return []*core.Scenario{c05Lists(2, []int{4, 64}), c05Resb(false), c05Alignb(), c05NonEmitting(), c05Sequences(3), c05SecondOrg(), c05SequencesIn(2, true), c05Escapes(), c05BehindGrownBranch()}
		},
		Assumptions: []string{
			"sentinel DB lines of eight small hexadecimal literals assemble to exactly those bytes (they are themselves members of the explored DB space)",
			"`$` denotes the address of the first byte of the statement containing it (NASM/NASK convention)",
			"a case in which gosk reports an error is not judged on its bytes; for numeric, expression, label and DB-string operands a refusal is itself a failure",
		},
	})
}
