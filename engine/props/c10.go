package props

import (
	"bytes"
	"fmt"
	"strings"
	"sync"
	"time"

	"verifengine/core"
)

// C10 — output is deterministic and independent of history (state-space search over histories).

func c10Pool() []string {
	var globals, labels strings.Builder
	for i := 0; i < 10; i++ {
		fmt.Fprintf(&globals, "\tGLOBAL _fn%d\n", 9-i)
		fmt.Fprintf(&labels, "_fn%d:\n\tMOV EAX,%d\n\tRET\n", i, i)
	}
	var equs strings.Builder
	for i := 0; i < 10; i++ {
		if i == 0 {
			equs.WriteString("K0 EQU 3\n")
		} else {
			fmt.Fprintf(&equs, "K%d EQU K%d+%d\n", i, i-1, i)
		}
	}
	shared := "\tMOV AX,0\n\tADD SI,1\n\tCMP AX,0\n\tMOV ECX,1\n\tAND AX,0x00ff\n\tPUSH AX\n\tMOV AL,[SI]\nlast:\n\tJMP last\n\tDW last\n"
	return []string{
		/* 0 */ "\tORG 0x7c00\nentry:\n\tMOV AX,0\n\tMOV SS,AX\n\tMOV SP,0x7c00\n\tMOV SI,msg\nputloop:\n\tMOV AL,[SI]\n\tADD SI,1\n\tCMP AL,0\n\tJE fin\n\tMOV AH,0x0e\n\tINT 0x10\n\tJMP putloop\nfin:\n\tHLT\n\tJMP fin\nmsg:\n\tDB 0x0a, \"hello\", 0\n\tRESB 0x7dfe-$\n\tDB 0x55, 0xaa\n",
		/* 1 */ "[BITS 32]\n\tMOV EAX,[ESP+4]\n\tMOV ECX,[EBX+ECX*4+8]\n\tADD EAX,0x100\n\tPUSH EAX\n\tPOP ECX\n\tOUT DX,AL\n\tRET\n",
		/* 2 */ "[FORMAT \"WCOFF\"]\n[INSTRSET \"i486p\"]\n[BITS 32]\n[FILE \"naskfunc.nas\"]\n" + globals.String() + "[SECTION .text]\n" + labels.String(),
		/* 3 */ equs.String() + "\tMOV AL,K9\n\tDB K0,K1,K2,K3,K4,K5,K6,K7,K8,K9\n\tMOV AX,[BX+K3]\n\tRESB K2\n",
		/* 4 */ "\tMOV AX,1\n\tJMP nowhere\n\tFOO AX\n\tINC AX\n\tDB 1\n",
		/* 5 */ "\tMOV AX,1\n\t)))\n",
		/* 6 */ "\tDB 1,2,3,\"text; with, separators\",0\n\tDW 0x1234,5\n\tDD 0x12345678\n\tRESB 7\n\tALIGNB 16\n\tDB 0xff\n",
		/* 7 */ "\tMOV AX,[BX]\n\tMOV [SI+4],CL\n\tMOV BYTE [0x0ff0],8\n\tMOV WORD [BX+0x100],320\n\tMOV EAX,[EBX+16]\n\tADD CX,[DI]\n\tCMP [BP+2],DX\n\tPUSH WORD [BX]\n",
		/* 8 */ "[FORMAT \"WCOFF\"]\n[BITS 32]\n[FILE \"x.nas\"]\n\tGLOBAL only\n[SECTION .text]\nonly:\n\tRET\n",
		/* 9 */ "\tMOV AX,1\n[BITS 32]\n\tMOV EAX,1\n[BITS 16]\n\tMOV BX,2\n",
		/* 10 */ "\tORG 0xc200\nstart:\n\tDW $\n\tMOV BX,start\n\tJMP DWORD 2*8:0x0000001b\n\tLGDT [gdtr]\n\tALIGNB 16\ngdtr:\n\tDW 8*3-1\n\tDD start\n",
		/* 11 */ "BASE EQU 0x0ff0\nOFS EQU 4\n\tMOV BYTE [BASE],8\n\tMOV AX,[BX+OFS*2]\n\tMOV CX,(BASE+OFS)*2-1\n\tAND EAX,0x7fffffff\n\tIMUL ECX,4608\n\tSHL AX,OFS\n",
		/* 12 */ shared,
		/* 13 */ "[BITS 32]\n" + shared,
		/* 15 */ "fin EQU 5\nmsg EQU 0x1234\nputloop EQU 7\nentry EQU 1\nlast EQU 3\n\tMOV AX,fin\n\tDW msg,putloop,entry,last\n",
		/* 16 */ "[FORMAT \"WCOFF\"]\n[BITS 32]\n\tGLOBAL _a1, _a2, _b1, _b2, _c1, _c2\n[SECTION .text]\n_a1:\n_a2:\n\tRET\n_b2:\n_b1:\n\tNOP\n\tRET\n_c1:\n_c2:\n\tHLT\n",
		/* 17 */ "\tMOV AX,LATER\nLATER EQU 9\n\tMOV BX,LATER\n\tJMP done\ndone:\n\tHLT\n",
		/* 18 */ "[FORMAT \"WCOFF\"]\n[BITS 32]\n\tGLOBAL _long_name_alpha, _long_name_beta, _short\n[SECTION .text]\n_long_name_alpha:\n\tRET\n_long_name_beta:\n\tNOP\n\tRET\n_short:\n\tHLT\n",
		/* 19 */ "[FORMAT \"WCOFF\"]\n[BITS 32]\n\tGLOBAL _another_long_one, _long_name_beta, _long_name_alpha\n[SECTION .text]\n_another_long_one:\n\tRET\n_long_name_beta:\n\tRET\n_long_name_alpha:\n\tHLT\n",
		/* 14 */ "SECT EQU 18\nHEADS EQU SECT/9\n\tMOV AX,SECT*512\n\tMOV CX,SECT\n\tMOV AL,[BX+SECT]\n\tDB SECT,HEADS\n\tMOV DX,[SI+HEADS+1]\n\tMOV BX,[BP-2+SI]\n",
		// 20/21: the same instruction lines with labels as memory addresses, the labels at different addresses
		/* 20 */ "\tORG 0x7c00\n\tMOV AX,[counter]\n\tADD WORD [counter],1\n\tCMP BYTE [flag],0\n\tMOV BX,counter\n\tHLT\ncounter:\n\tDW 0\nflag:\n\tDB 0\n",
		/* 21 */ "\tORG 0x7c00\n\tNOP\n\tMOV CX,0x1234\n\tMOV AX,[counter]\n\tADD WORD [counter],1\n\tCMP BYTE [flag],0\n\tMOV BX,counter\n\tHLT\nflag:\n\tDB 0,0,0\ncounter:\n\tDW 0\n",
		// 22/23: a long image of non-zero bytes, and a short program that reserves large zero regions (what an output
		// buffer kept from an earlier, longer assembly would show through)
		/* 22 */ "\tDB \"" + strings.Repeat("N", 9000) + "\"\n\tDD 0xeeeeeeee,0xeeeeeeee\n",
		/* 23 */ "\tDB 1\n\tRESB 5000\n\tDB 2\n\tRESB 0x2000-$\n\tDB 3\n\tALIGNB 4096\n\tDB 4\n",
		// 24-26: conditional jumps of neighbouring condition codes in their near forms (tables indexed by condition), in
		// separate programs and both in one
		/* 24 */ "\tCMP AX,1\n\tJE far\n\tJB far\n\tJL far\n\tRESB 300\nfar:\n\tHLT\n",
		/* 25 */ "\tCMP AX,1\n\tJNE far\n\tJAE far\n\tJGE far\n\tRESB 300\nfar:\n\tHLT\n",
		/* 26 */ "[BITS 32]\n\tCMP EAX,1\n\tJE far\n\tJNE far\n\tJBE near1\n\tJA far\nnear1:\n\tRESB 300\nfar:\n\tRET\n",
	}
}

type c10Op struct {
	prog  int // -1 = reassemble the previously parsed tree
	state int // 0 absent, 1 longer leftover file, 2 shorter leftover file
}

func (o c10Op) String() string {
	st := []string{"absent", "longer_leftover", "shorter_leftover"}[o.state]
	if o.prog < 0 {
		return "reassemble/" + st
	}
	return fmt.Sprintf("assemble(p%d)/%s", o.prog, st)
}

func c10Alphabet(nprog int) []c10Op {
	var ops []c10Op
	for p := 0; p < nprog; p++ {
		for s := 0; s < 3; s++ {
			ops = append(ops, c10Op{p, s})
		}
	}
	for s := 0; s < 3; s++ {
		ops = append(ops, c10Op{-1, s})
	}
	return ops
}

func (o c10Op) wire(pool []string, ref [][]byte, digest bool) core.Op {
	w := core.Op{Digest: digest}
	if o.prog < 0 {
		w.Reuse = true
	} else {
		w.Src = []byte(pool[o.prog])
	}
	switch o.state {
	case 1:
		w.HasPre = true
		w.Pre = bytes.Repeat([]byte{0xEE}, 70000)
	case 2:
		w.HasPre = true
		w.Pre = []byte{0xEE, 0xEE, 0xEE}
	}
	return w
}

type c10Ref struct {
	out      []byte
	exists   bool
	parseErr bool
	errs     string
}

func c10Custom(r *core.Run, tier string) {
	t0 := time.Now()
	pool := c10Pool()
	p := r.Cfg.Pool
	// reference: each program as the only operation of a fresh process, 5 times through the real CLI
	refs := make([]c10Ref, len(pool))
	var fresh int64
	var rwg sync.WaitGroup
	var rmu sync.Mutex
	for i, src := range pool {
		rwg.Add(1)
		go func(i int, src string) {
			defer rwg.Done()
			nruns := 5
			runs := make([]*core.Result, nruns)
			var iw sync.WaitGroup
			for k := 0; k < nruns; k++ {
				iw.Add(1)
				go func(k int) { defer iw.Done(); runs[k] = p.CLI(src, nil, false) }(k)
			}
			iw.Wait()
			first := runs[0]
			for k := 1; k < nruns; k++ {
				x := runs[k]
				if !bytes.Equal(first.Out, x.Out) || first.ExitCode != x.ExitCode {
					r.AddFail("fresh_processes", fmt.Sprintf("p%d", i), map[string]string{"prog": fmt.Sprint(i)}, []string{src},
						core.Fail{Facet: "determinism", Dev: "fresh_processes_disagree", Detail: fmt.Sprintf("run 0: %x exit %d; run %d: %x exit %d", first.Out, first.ExitCode, k, x.Out, x.ExitCode)})
				}
			}
			rmu.Lock()
			fresh += int64(nruns)
			refs[i] = c10Ref{out: first.Out, exists: first.OutExists, parseErr: first.ParseErr != "", errs: strings.Join(core.ErrLines(first), "\n")}
			rmu.Unlock()
		}(i, src)
	}
	rwg.Wait()
	// sources with bytes >= 0x80 in a string: what the command emits for them is C05-F01's subject and differs from the
	// in-process API, so they are not in the history pool - but 40 fresh processes of the command must agree with one
	// another (a choice made by map iteration order shows in roughly one process of eight)
	for ci, src := range []string{"\tDB \"caf\u00e9 \u65e5\u672c\",0\n\tMOV AL,1\n", "\tDB \"\x83\x41\xb1\"\n\tHLT ; \x93\xfa\n"} {
		runs := make([]*core.Result, 40)
		var iw sync.WaitGroup
		for k := range runs {
			iw.Add(1)
			go func(k int) { defer iw.Done(); runs[k] = p.CLI(src, nil, false) }(k)
		}
		iw.Wait()
		fresh += int64(len(runs))
		for k := 1; k < len(runs); k++ {
			if !bytes.Equal(runs[0].Out, runs[k].Out) || runs[0].ExitCode != runs[k].ExitCode {
				r.AddFail("fresh_processes", fmt.Sprintf("non-ASCII source %d", ci), map[string]string{"prog": fmt.Sprintf("nonascii%d", ci)}, []string{src},
					core.Fail{Facet: "determinism", Dev: "fresh_processes_disagree", Detail: fmt.Sprintf("run 0: %x exit %d; run %d: %x exit %d", runs[0].Out, runs[0].ExitCode, k, runs[k].Out, runs[k].ExitCode)})
				break
			}
		}
	}
	ops := c10Alphabet(len(pool))
	var mu sync.Mutex
	states := map[string]int{}
	var transitions, executed int64
	initialDigest := ""
	// judge one transition; lastParsed = program whose tree the process holds (-1 none)
	judge := func(hist []c10Op, idx int, res *core.Result, lastParsed int) (newLast int) {
		o := hist[idx]
		prog := o.prog
		newLast = lastParsed
		key := func() string {
			var parts []string
			for _, h := range hist[:idx+1] {
				parts = append(parts, h.String())
			}
			return strings.Join(parts, " -> ")
		}
		feat := map[string]string{"op": o.String(), "depth": fmt.Sprint(idx + 1)}
		fail := func(facet, dev, detail string) {
			var srcs []string
			for _, h := range hist[:idx+1] {
				if h.prog >= 0 {
					srcs = append(srcs, pool[h.prog])
				} else {
					srcs = append(srcs, "<reassemble>")
				}
			}
			r.AddFail("histories", key(), feat, srcs, core.Fail{Facet: facet, Dev: dev, Detail: detail})
		}
		if prog < 0 {
			if lastParsed < 0 {
				if !strings.Contains(res.ParseErr, "no tree to reuse") {
					fail("harness", "reuse_without_tree", res.ParseErr)
				}
				return
			}
			prog = lastParsed
		} else if refs[prog].parseErr {
			newLast = -1
			if res.ParseErr == "" {
				fail("history", "parse_error_lost", "program p"+fmt.Sprint(prog)+" parsed although it fails to parse in a fresh process")
			}
			return
		} else {
			newLast = prog
		}
		ref := refs[prog]
		if res.ParseErr != "" || res.Panic != "" {
			fail("history", "fails_only_with_history", trunc(res.ParseErr+res.Panic, 300))
			return
		}
		if !bytes.Equal(res.Out, ref.out) {
			dev := "output_differs_from_fresh_process"
			if o.state != 0 && len(res.Out) > len(ref.out) && bytes.HasPrefix(res.Out, ref.out) {
				dev = "leftover_destination_shows_through"
			} else if o.prog < 0 {
				dev = "reassembling_same_tree_differs"
			}
			fail("history", dev, fmt.Sprintf("got %d bytes %x..., fresh process gives %d bytes %x...", len(res.Out), res.Out[:min(len(res.Out), 24)], len(ref.out), ref.out[:min(len(ref.out), 24)]))
		}
		if e := strings.Join(core.ErrLines(res), "\n"); e != ref.errs {
			fail("history", "diagnostics_differ_from_fresh_process", trunc(e, 200)+" // "+trunc(ref.errs, 200))
		}
		if res.Digest != "" {
			mu.Lock()
			if initialDigest == "" {
				initialDigest = res.Digest
			}
			init := initialDigest
			states[res.Digest+"/"+res.TreeAfter]++
			mu.Unlock()
			if res.Digest != init {
				fail("global_state", "process_global_tables_changed", "digest "+res.Digest+" != initial "+init)
			}
			if res.TreeBefore != "" && res.TreeBefore != res.TreeAfter {
				fail("global_state", "syntax_tree_mutated_by_assembly", res.TreeBefore+" -> "+res.TreeAfter)
			}
		}
		return
	}
	runHistory := func(hist []c10Op, digestEvery int) {
		var wops []core.Op
		for i, o := range hist {
			wops = append(wops, o.wire(pool, nil, i == len(hist)-1 || (digestEvery > 0 && i%digestEvery == digestEvery-1)))
		}
		res, died := p.History(wops)
		last := -1
		for i := range res {
			last = judge(hist, i, &res[i], last)
			mu.Lock()
			transitions++
			executed++
			mu.Unlock()
		}
		if died {
			r.AddFail("histories", fmt.Sprint(hist[:len(res)+1]), map[string]string{"op": hist[len(res)].String()}, nil,
				core.Fail{Facet: "history", Dev: "worker_died", Detail: "the worker process ended while executing " + hist[len(res)].String()})
		}
	}
	// (i) exact histories from a fresh process, breadth first: depth 1, then depth 2
	sub := ops
	if tier != "thorough" {
		sub = nil
		for i, o := range ops {
			_ = i
			if o.prog < 0 || o.state == o.prog%3 { // one destination state per program, rotating, plus the reassemble ops
				sub = append(sub, o)
			}
		}
	}
	var hists [][]c10Op
	for _, a := range ops {
		hists = append(hists, []c10Op{a})
	}
	for _, a := range sub {
		for _, b := range sub {
			hists = append(hists, []c10Op{a, b})
		}
	}
	var wg sync.WaitGroup
	ch := make(chan []c10Op, 64)
	for w := 0; w < p.N; w++ {
		wg.Add(1)
		go func() {
			defer wg.Done()
			for h := range ch {
				runHistory(h, 0)
			}
		}()
	}
	for _, h := range hists {
		ch <- h
	}
	close(ch)
	wg.Wait()
	bfsHist := len(hists)
	// (i') the same destination states through the REAL command (it has a front end of its own: argument handling,
	// reading, and whatever it decides from the files it finds): every program over an existing longer, shorter and
	// identical destination file, written AFTER the source file (i.e. newer than it)
	var cliLeft int64
	{
		var cw sync.WaitGroup
		csem := make(chan struct{}, p.N)
		for i, src := range pool {
			if refs[i].parseErr {
				continue
			}
			pres := [][]byte{bytes.Repeat([]byte("OLD!"), 8192), []byte("x"), append([]byte{}, refs[i].out...), append(append([]byte{}, refs[i].out...), 0xEE)}
			for k, pre := range pres {
				cw.Add(1)
				csem <- struct{}{}
				go func(i, k int, src string, pre []byte) {
					defer cw.Done()
					defer func() { <-csem }()
					got := p.CLI(src, pre, true)
					mu.Lock()
					cliLeft++
					mu.Unlock()
					if !bytes.Equal(got.Out, refs[i].out) {
						dev := "output_differs_from_fresh_process"
						if bytes.Equal(got.Out, pre) {
							dev = "existing_destination_left_untouched"
						} else if len(got.Out) > len(refs[i].out) && bytes.HasPrefix(got.Out, refs[i].out) {
							dev = "leftover_destination_shows_through"
						}
						r.AddFail("cli_leftover", fmt.Sprintf("command: p%d over existing destination %d", i, k), map[string]string{"prog": fmt.Sprint(i), "pre": fmt.Sprint(k)}, []string{src},
							core.Fail{Facet: "history", Dev: dev, Detail: fmt.Sprintf("got %d bytes %x..., a fresh destination gives %d bytes %x...", len(got.Out), got.Out[:min(len(got.Out), 24)], len(refs[i].out), refs[i].out[:min(len(refs[i].out), 24)])})
					}
				}(i, k, src, pre)
			}
		}
		cw.Wait()
		r.AddNT("cli_leftover")
	}
	// (ii) thorough: every ordered triple of operations as a window of a de Bruijn sequence B(k,3), on live workers
	windows := 0
	if tier == "thorough" {
		seq := deBruijn(len(ops), 3)
		// cut into chains with an overlap of 2 so that every window of 3 lies inside one chain
		nch := 64
		L := (len(seq) + nch - 1) / nch
		ch2 := make(chan []c10Op, nch)
		for w := 0; w < p.N; w++ {
			wg.Add(1)
			go func() {
				defer wg.Done()
				for h := range ch2 {
					runHistory(h, 8)
				}
			}()
		}
		for s := 0; s < len(seq); s += L {
			e := s + L + 2
			var h []c10Op
			for i := s; i < e; i++ {
				h = append(h, ops[seq[i%len(seq)]])
			}
			windows += len(h) - 2
			ch2 <- h
		}
		close(ch2)
		wg.Wait()
	}
	r.Extra["alphabet"] = len(ops)
	r.Extra["bfs_histories_from_fresh_process"] = bfsHist
	r.Extra["de_bruijn_windows_of_3"] = windows
	r.Extra["distinct_state_digests"] = len(states)
	r.Extra["fresh_cli_reference_runs"] = fresh
	for i := range pool {
		r.AddNT(fmt.Sprintf("prog%d/%x", i, refs[i].out[:min(len(refs[i].out), 16)]))
	}
	r.AddSample(map[string]any{"history": []string{ops[0].String(), ops[len(ops)-1].String()}, "programs": len(pool)})
	r.AddSample(map[string]any{"program_2": pool[2]})
	r.AddCustom("histories", fmt.Sprintf("operations = assemble(p, destination state) for %d programs x 3 destination states", len(pool))+" + reassemble-the-same-tree x 3; explored: every history of length 1 and every pair (quick: over a 15-operation subset) from a fresh process (breadth first, successor = replay on a fresh worker), thorough: every ordered triple as a window of a de Bruijn sequence on live workers; every program also through the REAL command over 4 kinds of existing destination file (longer, shorter, identical, identical + 1 byte; all newer than the source); invariant on every transition: output and diagnostics equal those of a fresh process, leftover destination never shows, process-global tables and the parsed tree unchanged",
		map[string]any{"programs": len(pool), "operations": len(ops), "pairs_over": len(sub)}, int64(len(states))+int64(bfsHist), transitions+cliLeft, executed+cliLeft, int64(len(pool)), len(states), true, time.Since(t0).Seconds())
}

// deBruijn returns a de Bruijn sequence B(k,n) over {0..k-1} (length k^n, cyclic).
func deBruijn(k, n int) []int {
	a := make([]int, k*n)
	var seq []int
	var db func(t, p int)
	db = func(t, p int) {
		if t > n {
			if n%p == 0 {
				seq = append(seq, a[1:p+1]...)
			}
			return
		}
		a[t] = a[t-p]
		db(t+1, p)
		for j := a[t-p] + 1; j < k; j++ {
			a[t] = j
			db(t+1, t)
		}
	}
	db(1, 1)
	return seq
}

func init() {
	register(&Property{
		ID:        "C10",
		Scenarios: func(tier string) []*core.Scenario { return nil },
		Custom:    c10Custom,
		Assumptions: []string{
			"the reference for a program is its output as the only operation of a fresh CLI process (5 fresh processes per program must agree; this auxiliary repetition is a smoke test, not part of the exhaustive claim)",
			"Go's map-iteration order and the clock are not choice points the explorer controls; the code reads neither on the output path at the pinned commit",
			"process-global state is observed through read-only dumpers injected by overlay (asmdb instruction table, pass-1 handler table, codegen opcode tables) and a pointer-free dump of the parsed syntax tree",
		},
	})
}
