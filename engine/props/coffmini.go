package props

import (
	"encoding/binary"
	"fmt"
	"strings"
)

// Strict COFF reader written from the PE/COFF specification (no gosk code): header, section
// table, symbol table incl. auxiliary records, string table. Every bound is checked.

type coffSection struct {
	Name                                             string
	VirtualSize, VirtualAddress, SizeOfRawData       uint32
	PointerToRawData, PointerToRelocs, PointerToLine uint32
	NumRelocs, NumLines                              uint16
	Characteristics                                  uint32
}

type coffSymbol struct {
	Name      string
	RawName   [8]byte
	LongName  bool
	StrOffset uint32
	Value     uint32
	Section   int16
	Type      uint16
	Class     uint8
	NumAux    uint8
	Aux       [][]byte
	Index     int
}

type coffFile struct {
	Machine            uint16
	NumSections        uint16
	TimeDateStamp      uint32
	PointerToSymbols   uint32
	NumberOfSymbols    uint32
	SizeOfOptionalHdr  uint16
	Characteristics    uint16
	Sections           []coffSection
	Symbols            []coffSymbol
	StringTable        []byte
	StringTableDeclLen uint32
	Problems           []string
}

func parseCOFF(b []byte) *coffFile {
	f := &coffFile{}
	bad := func(format string, a ...any) { f.Problems = append(f.Problems, fmt.Sprintf(format, a...)) }
	if len(b) < 20 {
		bad("file shorter than a COFF header (%d bytes)", len(b))
		return f
	}
	le := binary.LittleEndian
	f.Machine = le.Uint16(b[0:])
	f.NumSections = le.Uint16(b[2:])
	f.TimeDateStamp = le.Uint32(b[4:])
	f.PointerToSymbols = le.Uint32(b[8:])
	f.NumberOfSymbols = le.Uint32(b[12:])
	f.SizeOfOptionalHdr = le.Uint16(b[16:])
	f.Characteristics = le.Uint16(b[18:])
	off := 20 + int(f.SizeOfOptionalHdr)
	for i := 0; i < int(f.NumSections); i++ {
		if off+40 > len(b) {
			bad("section header %d lies outside the file", i)
			return f
		}
		s := coffSection{}
		s.Name = strings.TrimRight(string(b[off:off+8]), "\x00")
		s.VirtualSize = le.Uint32(b[off+8:])
		s.VirtualAddress = le.Uint32(b[off+12:])
		s.SizeOfRawData = le.Uint32(b[off+16:])
		s.PointerToRawData = le.Uint32(b[off+20:])
		s.PointerToRelocs = le.Uint32(b[off+24:])
		s.PointerToLine = le.Uint32(b[off+28:])
		s.NumRelocs = le.Uint16(b[off+32:])
		s.NumLines = le.Uint16(b[off+34:])
		s.Characteristics = le.Uint32(b[off+36:])
		f.Sections = append(f.Sections, s)
		if s.SizeOfRawData > 0 {
			if s.PointerToRawData == 0 && s.Characteristics&0x80 == 0 {
				bad("section %q has raw data size %d but no pointer", s.Name, s.SizeOfRawData)
			} else if s.PointerToRawData != 0 && (uint64(s.PointerToRawData)+uint64(s.SizeOfRawData) > uint64(len(b)) || int(s.PointerToRawData) < 20+40*int(f.NumSections)) {
				bad("section %q raw data [%d,+%d) lies outside the file body (file %d bytes)", s.Name, s.PointerToRawData, s.SizeOfRawData, len(b))
			}
		}
		if s.NumRelocs > 0 && uint64(s.PointerToRelocs)+10*uint64(s.NumRelocs) > uint64(len(b)) {
			bad("section %q relocations lie outside the file", s.Name)
		}
		off += 40
	}
	if f.NumberOfSymbols == 0 && f.PointerToSymbols == 0 {
		return f
	}
	symEnd := uint64(f.PointerToSymbols) + 18*uint64(f.NumberOfSymbols)
	if uint64(f.PointerToSymbols) < uint64(off) || symEnd > uint64(len(b)) {
		bad("symbol table [%d,+18*%d) lies outside the file (%d bytes)", f.PointerToSymbols, f.NumberOfSymbols, len(b))
		return f
	}
	// string table directly follows the symbol table
	if symEnd+4 > uint64(len(b)) {
		bad("no string-table length field after the symbol table")
	} else {
		f.StringTableDeclLen = le.Uint32(b[symEnd:])
		f.StringTable = b[symEnd:]
		if uint64(f.StringTableDeclLen) != uint64(len(b))-symEnd {
			bad("string-table length field %d != bytes remaining %d", f.StringTableDeclLen, uint64(len(b))-symEnd)
		}
	}
	i := 0
	for i < int(f.NumberOfSymbols) {
		p := int(f.PointerToSymbols) + 18*i
		s := coffSymbol{Index: i}
		copy(s.RawName[:], b[p:p+8])
		if le.Uint32(b[p:]) == 0 {
			s.LongName = true
			s.StrOffset = le.Uint32(b[p+4:])
			if f.StringTable == nil || s.StrOffset < 4 || int(s.StrOffset) >= len(f.StringTable) {
				bad("symbol %d: long-name offset %d outside the string table (%d bytes)", i, s.StrOffset, len(f.StringTable))
			} else {
				rest := f.StringTable[s.StrOffset:]
				z := -1
				for k, ch := range rest {
					if ch == 0 {
						z = k
						break
					}
				}
				if z < 0 {
					bad("symbol %d: long name not NUL-terminated", i)
					s.Name = string(rest)
				} else {
					s.Name = string(rest[:z])
				}
			}
		} else {
			s.Name = strings.TrimRight(string(b[p:p+8]), "\x00")
		}
		s.Value = le.Uint32(b[p+8:])
		s.Section = int16(le.Uint16(b[p+12:]))
		s.Type = le.Uint16(b[p+14:])
		s.Class = b[p+16]
		s.NumAux = b[p+17]
		if i+1+int(s.NumAux) > int(f.NumberOfSymbols) {
			bad("symbol %d (%q): %d auxiliary records run past the declared symbol count %d", i, s.Name, s.NumAux, f.NumberOfSymbols)
			f.Symbols = append(f.Symbols, s)
			break
		}
		for a := 0; a < int(s.NumAux); a++ {
			q := p + 18*(a+1)
			s.Aux = append(s.Aux, append([]byte(nil), b[q:q+18]...))
		}
		if s.Section > int16(f.NumSections) || s.Section < -2 {
			bad("symbol %d (%q): section number %d out of range", i, s.Name, s.Section)
		}
		f.Symbols = append(f.Symbols, s)
		i += 1 + int(s.NumAux)
	}
	return f
}

func (f *coffFile) sectionData(b []byte, idx int) []byte {
	if idx < 0 || idx >= len(f.Sections) {
		return nil
	}
	s := f.Sections[idx]
	if s.PointerToRawData == 0 || uint64(s.PointerToRawData)+uint64(s.SizeOfRawData) > uint64(len(b)) {
		return nil
	}
	return b[s.PointerToRawData : s.PointerToRawData+s.SizeOfRawData]
}
