// Package props: one scenario file per property.
package props

import "verifengine/core"

type Property struct {
	ID          string
	Scenarios   func(tier string) []*core.Scenario
	Pre         func(r *core.Run, tier string) // model self-checks etc.
	Custom      func(r *core.Run, tier string) // explorations that are not choice trees
	Assumptions []string
}

var registry = map[string]*Property{}

func register(p *Property) { registry[p.ID] = p }

func Lookup(id string) *Property { return registry[id] }
