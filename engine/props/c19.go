package props

import (
	"bytes"
	"fmt"
	"os"
	"path/filepath"
	"regexp"
	"strings"
	"sync"
	"time"

	"verifengine/core"
)

// C19 — command-line contract: exit status, output file, source encoding.

const c19Valid = "\tORG 0x7c00\nstart:\n\tMOV AX,0x1234\n\tJMP start\n\tDB \"ok\",0\n"
const c19Bad = "\tMOV AX,1\n\tMOV AX,,\n"
const c19BadEOL = "\tMOV AX,1\n\tMOV BX,\n\tHLT\n"    // the parse error is AT the end of a line
const c19BadStr = "\tMOV AX,1\n\tDB \"hello\n\tHLT\n" // unterminated string
const c19Obj = "[FORMAT \"WCOFF\"]\n[INSTRSET \"i486p\"]\n[BITS 32]\n[FILE \"obj.nas\"]\n\tGLOBAL _f1\n[SECTION .text]\n_f1:\n\tMOV EAX,1\n\tRET\n"

// sources that parse but contain a statement the code generator refuses (an undefined label as memory address): whether
// such a run counts as failed is C07's business; IF it exits non-zero the output file must not hold a partial image
const c19Undef = "\tORG 0x7c00\n\tMOV AX,1\n\tMOV AL,[cursro]\n\tADD AX,2\n\tDB \"tail\",0\n"
const c19UndefObj = "[FORMAT \"WCOFF\"]\n[BITS 32]\n[FILE \"u.nas\"]\n\tGLOBAL _f\n[SECTION .text]\n_f:\n\tMOV EAX,[nolabel]\n\tRET\n"

var c19Old = bytes.Repeat([]byte("OLD!"), 64)
var lineColRe = regexp.MustCompile(`\b\d+:\d+\b`)

type c19Expect struct {
	exit     string // "0", "16", "17", "nonzero", "any"
	dst      string // destination path token ("" none)
	wantFile string // "bytes" (must equal assembled bytes), "intact_or_empty_or_absent", "unjudged"
	bytesOf  string // "valid" / "empty"
	lineCol  bool
	why      string
}

func c19Model(argv []string) c19Expect {
	i := 0
	for i < len(argv) && strings.HasPrefix(argv[i], "-") {
		return c19Expect{exit: "0", why: "a flag (-v / --help) prints and exits 0", wantFile: "unjudged"}
	}
	pos := argv[i:]
	if len(pos) < 2 {
		return c19Expect{exit: "16", why: "fewer than two positional arguments", wantFile: "unjudged"}
	}
	src, dst := pos[0], pos[1]
	e := c19Expect{dst: dst}
	switch src {
	case "valid.nas", "empty.nas", "obj.nas", "undef.nas", "undef_obj.nas":
	case "bad.nas", "bad_eol.nas", "bad_str.nas":
		e.exit, e.lineCol, e.wantFile, e.why = "nonzero", true, "intact_or_empty_or_absent", "parse error: non-zero exit with line:col"
		return e
	case "missing.nas", "nodir/out.bin", "new.bin":
		e.exit, e.wantFile, e.why = "17", "intact_or_empty_or_absent", "source does not exist"
		return e
	case "sub", "/dev/full":
		// a directory cannot be read; /dev/full reads as an endless stream or fails: only "does not succeed silently with garbage" is judged
		if src == "sub" {
			e.exit, e.wantFile, e.why = "17", "intact_or_empty_or_absent", "source is a directory"
			return e
		}
		return c19Expect{exit: "any", wantFile: "unjudged", why: "/dev/full as source: not specified"}
	case "existing.bin":
		// binary junk as source: a parse error or whatever it assembles to; only crash-freedom is of interest
		return c19Expect{exit: "any", wantFile: "unjudged", dst: dst, why: "junk source"}
	default:
		return c19Expect{exit: "any", wantFile: "unjudged", why: "flag-like source name"}
	}
	e.bytesOf = strings.TrimSuffix(src, ".nas")
	switch dst {
	case "nodir/out.bin":
		e.exit, e.wantFile, e.why = "17", "unjudged", "output directory does not exist"
	case "sub":
		e.exit, e.wantFile, e.why = "17", "unjudged", "output path is a directory"
	case "/dev/full":
		if src == "empty.nas" {
			e.exit, e.wantFile, e.why = "any", "unjudged", "nothing to write"
		} else {
			e.exit, e.wantFile, e.why = "nonzero", "unjudged", "the device reports ENOSPC on write"
		}
	default:
		e.exit, e.wantFile, e.why = "0", "bytes", "success"
		if strings.HasPrefix(src, "undef") {
			e.exit, e.wantFile, e.why = "any", "on_failure_intact", "a statement is refused by the code generator: exit status not specified here, but no partial image after a non-zero exit"
		}
	}
	return e
}

func c19Setup(dir string) {
	os.MkdirAll(filepath.Join(dir, "sub"), 0o755)
	os.WriteFile(filepath.Join(dir, "valid.nas"), []byte(c19Valid), 0o644)
	os.WriteFile(filepath.Join(dir, "empty.nas"), nil, 0o644)
	os.WriteFile(filepath.Join(dir, "bad.nas"), []byte(c19Bad), 0o644)
	os.WriteFile(filepath.Join(dir, "bad_eol.nas"), []byte(c19BadEOL), 0o644)
	os.WriteFile(filepath.Join(dir, "bad_str.nas"), []byte(c19BadStr), 0o644)
	os.WriteFile(filepath.Join(dir, "obj.nas"), []byte(c19Obj), 0o644)
	os.WriteFile(filepath.Join(dir, "undef.nas"), []byte(c19Undef), 0o644)
	os.WriteFile(filepath.Join(dir, "undef_obj.nas"), []byte(c19UndefObj), 0o644)
	os.WriteFile(filepath.Join(dir, "existing.bin"), c19Old, 0o644)
}

func c19Custom(r *core.Run, tier string) {
	t0 := time.Now()
	p := r.Cfg.Pool
	tokens := []string{"valid.nas", "new.bin", "existing.bin", "missing.nas", "bad.nas", "empty.nas", "sub", "nodir/out.bin", "/dev/full", "-v", "--help", "obj.nas", "bad_eol.nas", "bad_str.nas", "undef.nas", "undef_obj.nas"}
	maxLen := 3
	if tier == "thorough" {
		maxLen = 4
	}
	validBytes := p.Exec(c19Valid).Out
	objBytes := p.Exec(c19Obj).Out
	if len(objBytes) == 0 {
		core.Fatalf("C19: the reference object program does not assemble through the API")
	}
	if len(validBytes) == 0 {
		core.Fatalf("C19: the reference program does not assemble through the API")
	}
	var argvs [][]string
	var rec func(cur []string)
	rec = func(cur []string) {
		// /dev/full as the SOURCE is an endless stream of zero bytes (reading it never ends): not a
		// meaningful situation and dangerous to spawn; it is used as a destination only
		for i, t := range cur {
			if t == "/dev/full" && (i == 0 || strings.HasPrefix(cur[i-1], "-")) {
				firstPos := true
				for _, u := range cur[:i] {
					if !strings.HasPrefix(u, "-") {
						firstPos = false
					}
				}
				if firstPos {
					return
				}
			}
		}
		argvs = append(argvs, append([]string(nil), cur...))
		if len(cur) == maxLen {
			return
		}
		for _, t := range tokens {
			rec(append(cur, t))
		}
	}
	rec(nil)
	var mu sync.Mutex
	outcomes := map[string]int{}
	var wg sync.WaitGroup
	ch := make(chan []string, 64)
	var spawned int64
	for w := 0; w < p.N; w++ {
		wg.Add(1)
		go func(w int) {
			defer wg.Done()
			n := 0
			for argv := range ch {
				n++
				dir := filepath.Join(p.TmpDir, fmt.Sprintf("c19_%d_%d", w, n))
				c19Setup(dir)
				exit, so, se, to := p.RunCLIArgs(dir, argv)
				exp := c19Model(argv)
				key := "gosk " + strings.Join(argv, " ")
				feat := map[string]string{"argc": fmt.Sprint(len(argv)), "why": exp.why}
				fail := func(facet, dev, detail string) {
					r.AddFail("argv", key, feat, nil, core.Fail{Facet: facet, Dev: dev, Detail: detail})
				}
				if to {
					fail("hang", "timeout", "")
				}
				if strings.Contains(se, "panic:") || strings.Contains(se, "fatal error:") || exit == 2 && strings.Contains(se, "goroutine ") {
					fail("crash", "panic", trunc(se, 300))
				}
				switch exp.exit {
				case "0", "16", "17":
					if fmt.Sprint(exit) != exp.exit {
						fail("exit_code", fmt.Sprintf("got:%d want:%s", exit, exp.exit), exp.why+"; stdout: "+trunc(so, 120))
					}
				case "nonzero":
					if exit == 0 {
						fail("exit_code", "got:0 want:nonzero", exp.why+"; stdout: "+trunc(so, 120))
					}
				}
				if exp.lineCol && !lineColRe.MatchString(so+se) {
					fail("message", "no_position", trunc(so+se, 200))
				}
				if exp.dst != "" && !strings.HasPrefix(exp.dst, "/dev/") {
					b, err := os.ReadFile(filepath.Join(dir, exp.dst))
					orig := map[string][]byte{"existing.bin": c19Old, "valid.nas": []byte(c19Valid), "bad.nas": []byte(c19Bad), "empty.nas": {},
						"obj.nas": []byte(c19Obj), "bad_eol.nas": []byte(c19BadEOL), "bad_str.nas": []byte(c19BadStr), "undef.nas": []byte(c19Undef), "undef_obj.nas": []byte(c19UndefObj)}[exp.dst]
					switch exp.wantFile {
					case "bytes":
						want := validBytes
						if exp.bytesOf == "empty" {
							want = nil
						} else if exp.bytesOf == "obj" {
							want = objBytes
						}
						if err != nil || !bytes.Equal(b, want) {
							fail("output_file", "differs_from_api_bytes", fmt.Sprintf("file %x (err %v), assembled bytes %x", b, err, want))
						}
					case "intact_or_empty_or_absent":
						if err == nil && len(b) > 0 && !bytes.Equal(b, orig) {
							fail("output_file", "partial_image_after_failure", fmt.Sprintf("exit %d but %s now holds %x", exit, exp.dst, b[:min(len(b), 32)]))
						}
					}
					if exit != 0 && exp.wantFile != "unjudged" && err == nil && len(b) > 0 && !bytes.Equal(b, orig) {
						fail("output_file", "partial_image_after_failure", fmt.Sprintf("exit %d but %s now holds %x", exit, exp.dst, b[:min(len(b), 32)]))
					}
				}
				os.RemoveAll(dir)
				mu.Lock()
				outcomes[fmt.Sprintf("exit%d", exit)]++
				spawned++
				if exit == 0 && exp.wantFile == "bytes" {
					r.AddNT("argv|" + key)
				}
				mu.Unlock()
			}
		}(w)
	}
	for _, a := range argvs {
		ch <- a
	}
	close(ch)
	wg.Wait()
	r.AddSample(map[string]any{"argv": []string{"valid.nas", "existing.bin"}, "expected": "exit 0, existing.bin == assembled bytes"})
	r.AddSample(map[string]any{"argv": []string{"bad.nas", "existing.bin"}, "expected": "non-zero exit, line:col message, existing.bin intact or empty"})
	r.AddCustom("argv_vectors", fmt.Sprintf("ALL argument vectors of length 0..%d over a 16-token alphabet of path situations and flags (valid/missing/unparsable/empty source, directory, new/existing output, output in a missing directory, /dev/full, -v, --help), each spawned as the real command in a freshly prepared directory; oracle: model of the command-line contract (exit 16/17/0/non-zero, position in the parse-error message, output file == API bytes on success, no partial image after a failure); non-trivial = successful assemblies", maxLen),
		map[string]any{"tokens": tokens, "max_len": maxLen}, int64(len(argvs))+1, int64(len(argvs)), spawned, int64(outcomes["exit0"]), len(outcomes), true, time.Since(t0).Seconds())

	// CLI vs in-process API on the program pool
	t1 := time.Now()
	pool := c10Pool()
	for i, src := range pool {
		api := p.Exec(src)
		cli := p.CLI(src, nil, false)
		if api.Died {
			continue
		}
		if !bytes.Equal(api.Out, cli.Out) || (api.ParseErr != "") != (cli.ExitCode != 0) {
			r.AddFail("cli_vs_api", fmt.Sprintf("pool program %d", i), map[string]string{"prog": fmt.Sprint(i)}, []string{src},
				core.Fail{Facet: "cli_vs_api", Dev: "differs", Detail: fmt.Sprintf("API %x / CLI %x exit %d", api.Out, cli.Out, cli.ExitCode)})
		}
	}
	r.AddCustom("cli_vs_api", "the 12-program pool through the real command and through the in-process API: identical bytes, parse failures agree", nil, int64(len(pool))+1, int64(len(pool)), int64(len(pool)), int64(len(pool)), 1, true, time.Since(t1).Seconds())

	c19Charsets(r, tier)
	c19Positions(r)
	c19SpecialSource(r)
	c19LongAndMixed(r)
}

// c19LongAndMixed: sources that stress how the command READS its file: very long lines (comment,
// string, DB list), many lines, a file mixing Shift_JIS and UTF-8 comment lines, a trailing
// comment without newline - the command's output must equal the in-process API's.
func c19LongAndMixed(r *core.Run) {
	t0 := time.Now()
	p := r.Cfg.Pool
	body := "\tMOV AX,0\n\tMOV SS,AX\n\tMOV SP,0x7c00\nfin:\n\tHLT\n\tJMP fin\n\tDB 0x55,0xaa\n"
	sjis := "\x93\xfa\x96\x7b\x8c\xea\x83\x5c" // Shift_JIS text ending in a 0x5C trail byte
	utf8 := "日本語ソ"
	type in struct{ name, cliSrc, apiSrc string }
	dbl := "\tDB 1" + strings.Repeat(",1", 40000) + "\n"
	ins := []in{
		{"comment_100k", "\t; " + strings.Repeat("c", 100000) + "\n" + body, body},
		{"comment_70k_after_statement", "\tMOV AX,0 ; " + strings.Repeat("x", 70000) + "\n" + body, "\tMOV AX,0\n" + body},
		{"string_70k", "\tDB \"" + strings.Repeat("a", 70000) + "\"\n" + body, "\tDB \"" + strings.Repeat("a", 70000) + "\"\n" + body},
		{"db_list_40k", dbl + body, dbl + body},
		{"lines_20k", strings.Repeat("\tNOP\n", 20000) + body, strings.Repeat("\tNOP\n", 20000) + body},
		{"mixed_sjis_utf8_comments", "\tMOV AX,1 ; " + sjis + "\n\tMOV BX,2 ; " + utf8 + "\n" + body + "; " + sjis + "\n; " + utf8 + "\n\tDB 0x42\n", "\tMOV AX,1\n\tMOV BX,2\n" + body + "\tDB 0x42\n"},
		{"sjis_comments_many", strings.Repeat("\tNOP ; "+sjis+"\n", 300) + body, strings.Repeat("\tNOP\n", 300) + body},
		{"utf8_comments_many", strings.Repeat("\tNOP ; "+utf8+"\n", 300) + body, strings.Repeat("\tNOP\n", 300) + body},
		{"sjis_comment_last_line_no_newline", body + "\tDB 0x42 ; " + sjis, body + "\tDB 0x42\n"},
	}
	var n int64
	for _, x := range ins {
		api := p.Exec(x.apiSrc)
		cli := p.CLI(x.cliSrc, nil, false)
		n++
		if cli.ExitCode != 0 || !bytes.Equal(cli.Out, api.Out) {
			r.AddFail("cli_reading", x.name, map[string]string{"input": x.name}, nil,
				core.Fail{Facet: "cli_vs_api", Dev: "differs:" + x.name, Detail: fmt.Sprintf("command: exit %d, %d bytes (%x...); API on the comment-free source: %d bytes", cli.ExitCode, len(cli.Out), cli.Out[:min(len(cli.Out), 16)], len(api.Out))})
		}
		r.AddNT("cli_reading|" + x.name)
	}
	r.AddCustom("cli_reading", "9 sources that stress how the command reads its file (100 000-character comment, 70 000-character string, 40 000-item DB list, 20 000 lines, Shift_JIS and UTF-8 comment lines mixed in one file, 300 non-ASCII comments, non-ASCII comment on a last line without newline): exit 0 and bytes equal to the in-process API on the comment-free source",
		nil, n+1, n, n, n, 1, true, time.Since(t0).Seconds())
}

// c19Charsets: comments containing every Shift_JIS double-byte code, half-width katakana byte,
// 2-byte UTF-8 character and 3-byte character of two blocks, mid-comment and as the LAST character
// before the line end. 100 characters per file; a failing file is bisected to the character.
func c19Charsets(r *core.Run, tier string) {
	t0 := time.Now()
	p := r.Cfg.Pool
	type ch struct {
		enc   string
		bytes []byte
	}
	var chars []ch
	for lead := 0x81; lead <= 0xfc; lead++ {
		if lead > 0x9f && lead < 0xe0 {
			continue
		}
		for trail := 0x40; trail <= 0xfc; trail++ {
			if trail == 0x7f {
				continue
			}
			if tier != "thorough" && !(trail == 0x40 || trail == 0x5c || trail == 0x7c || trail == 0x7e || trail == 0x80 || trail == 0xfc || trail%16 == 3) {
				continue
			}
			chars = append(chars, ch{"sjis", []byte{byte(lead), byte(trail)}})
		}
	}
	for b := 0xa1; b <= 0xdf; b++ {
		chars = append(chars, ch{"sjis-kana", []byte{byte(b)}})
	}
	step := 1
	if tier != "thorough" {
		step = 7
	}
	for cp := 0x80; cp <= 0x7ff; cp += step {
		chars = append(chars, ch{"utf8-2", []byte(string(rune(cp)))})
	}
	for _, blk := range [][2]int{{0x3000, 0x30ff}, {0x4e00, 0x9fff}} {
		st := step
		if blk[0] == 0x4e00 && tier != "thorough" {
			st = 97
		}
		for cp := blk[0]; cp <= blk[1]; cp += st {
			chars = append(chars, ch{"utf8-3", []byte(string(rune(cp)))})
		}
	}
	build := func(cs []ch, last bool) ([]byte, []byte) {
		var src bytes.Buffer
		var want []byte
		for i, c := range cs {
			src.WriteString("\tMOV AX,1 ; c ")
			src.Write(c.bytes)
			if !last {
				src.WriteString(" tail")
			}
			src.WriteString("\n")
			src.WriteString(fmt.Sprintf("\tDB %d\n", i%250+1))
			want = append(want, 0xB8, 0x01, 0x00, byte(i%250+1))
		}
		return src.Bytes(), want
	}
	var files, charsChecked int64
	var mu sync.Mutex
	runFile := func(cs []ch, last bool) bool {
		src, want := build(cs, last)
		dir := filepath.Join(p.TmpDir, fmt.Sprintf("c19cs_%d", time.Now().UnixNano()))
		os.MkdirAll(dir, 0o755)
		defer os.RemoveAll(dir)
		os.WriteFile(filepath.Join(dir, "in.nas"), src, 0o644)
		exit, _, _, _ := p.RunCLIArgs(dir, []string{"in.nas", "out.bin"})
		b, _ := os.ReadFile(filepath.Join(dir, "out.bin"))
		mu.Lock()
		files++
		mu.Unlock()
		return exit == 0 && bytes.Equal(b, want)
	}
	var bisect func(cs []ch, last bool)
	bisect = func(cs []ch, last bool) {
		if runFile(cs, last) {
			return
		}
		if len(cs) == 1 {
			pos := "mid_comment"
			if last {
				pos = "last_before_newline"
			}
			r.AddFail("charsets", fmt.Sprintf("%s % X %s", cs[0].enc, cs[0].bytes, pos), map[string]string{"enc": cs[0].enc, "pos": pos, "trail": fmt.Sprintf("%02X", cs[0].bytes[len(cs[0].bytes)-1])}, nil,
				core.Fail{Facet: "charset", Dev: "comment_changes_output", Detail: fmt.Sprintf("a comment containing % X (%s, %s) changes the assembled bytes or the exit status", cs[0].bytes, cs[0].enc, pos)})
			return
		}
		bisect(cs[:len(cs)/2], last)
		bisect(cs[len(cs)/2:], last)
	}
	var wg sync.WaitGroup
	sem := make(chan struct{}, p.N)
	for _, last := range []bool{false, true} {
		for i := 0; i < len(chars); i += 100 {
			e := i + 100
			if e > len(chars) {
				e = len(chars)
			}
			// keep encodings separate: a file is either Shift_JIS or UTF-8
			j := i
			for j < e {
				k := j
				for k < e && chars[k].enc[:4] == chars[j].enc[:4] {
					k++
				}
				grp := chars[j:k]
				wg.Add(1)
				sem <- struct{}{}
				go func(grp []ch, last bool) {
					defer wg.Done()
					bisect(grp, last)
					<-sem
				}(grp, last)
				charsChecked += int64(len(grp))
				j = k
			}
		}
	}
	wg.Wait()
	r.Extra["charset_characters_checked"] = charsChecked
	r.AddSample(map[string]any{"charset_line": "\\tMOV AX,1 ; c <0x83 0x5C> tail", "note": "Shift_JIS double byte whose trail byte is a backslash"})
	r.AddCustom("charsets", "comments containing each Shift_JIS double-byte code (lead 81-9F,E0-FC x trail 40-7E,80-FC; quick: a trail subset incl. 5C and 7C), each half-width katakana byte, 2-byte UTF-8 characters and 3-byte characters of U+3000-30FF and U+4E00-9FFF, mid-comment and as the last character before the newline; 100 characters per file through the real command; the output must equal the comment-free program's bytes; failing files are bisected to the character",
		map[string]any{"characters": len(chars), "positions": 2}, charsChecked+1, charsChecked, files, charsChecked, 2, true, time.Since(t0).Seconds())
}

func init() {
	register(&Property{
		ID:        "C19",
		Scenarios: func(tier string) []*core.Scenario { return nil },
		Custom:    c19Custom,
		Assumptions: []string{
			"contract model (cliref): flags -v/--help exit 0; fewer than two positional arguments -> 16; source missing or a directory -> 17; output in a missing directory or naming a directory -> 17; parse error -> non-zero with line:col; success -> 0 and file == bytes of the in-process API; after a failing run the named output is absent, unchanged or empty",
			"situations the property does not define (/dev/full or junk as the source, an empty program written to /dev/full) are spawned for crash-freedom only",
			"a file is either Shift_JIS or UTF-8; characters are judged 100 per file and bisected on failure",
		},
	})
}
