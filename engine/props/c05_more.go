package props

import (
	"fmt"
	"strings"

	"verifengine/core"
)

// C05, scenario escaped_strings: gosk accepts a doubled backslash inside a string (and only that; a single one is a
// parse error) and emits ONE backslash byte for it; the letter behind it is data, whatever it is.
func c05Escapes() *core.Scenario {
	letters := []string{"b", "f", "n", "r", "t"} // the followers the grammar admits behind a doubled backslash (others are refused)
	return &core.Scenario{
		Name: "escaped_strings", Bound: -1,
		Rule:   "DB strings in which a doubled backslash is followed by each of b f n r t (the followers the grammar admits), at the start, in the middle (twice) and at the end of the string: one 0x5C byte per doubled backslash, every other character as written",
		Bounds: map[string]any{"followers": letters},
		Build: func(c *core.Chooser) *core.Case {
			l := letters[c.Pick("follower", len(letters))]
			pos := c.Pick("position", 3)
			var lit string // the literal between the quotes, as written in the source
			var want []byte
			bs, one := "\\\\", byte(0x5c)
			tail := l
			tailBytes := []byte(l)
			if l == "\\\\" {
				tailBytes = []byte{one}
			} else if l == "\"" {
				tail, tailBytes = "", nil // the doubled backslash is the last character of the string
			}
			switch pos {
			case 0:
				lit = bs + tail + "temp"
				want = append(append([]byte{one}, tailBytes...), []byte("temp")...)
			case 1:
				lit = "C:" + bs + tail + "emp" + bs + tail + "ask"
				want = append([]byte("C:"), one)
				want = append(append(want, tailBytes...), []byte("emp")...)
				want = append(append(append(want, one), tailBytes...), []byte("ask")...)
			default:
				lit = "dir" + bs + tail
				want = append(append([]byte("dir"), one), tailBytes...)
			}
			want = append(want, 0)
			src := sentinelLine(0) + "\tDB \"" + lit + "\",0\n" + sentinelLine(1)
			return &core.Case{
				Key:   fmt.Sprintf("escaped|%s|pos=%d", lit, pos),
				Feat:  feat("dir", "escaped_string", "follower", l, "pos", fmt.Sprint(pos)),
				Srcs:  []string{src},
				Judge: func(rs []*core.Result) core.Verdict { return c05JudgeRegion(rs[0], want, 0, true) },
			}
		},
	}
}

// c05BehindGrownBranch: data directives whose operands depend on the location counter ($, EQU of $, labels), behind a
// branch that does not reach with rel8 - pass 1 runs a second time and every address behind the branch has moved.
func c05BehindGrownBranch() *core.Scenario {
	mns := []string{"JMP", "JNZ", "CALL"}
	return &core.Scenario{
		Name: "directives_behind_grown_branch", Bound: -1,
		Rule:   "JMP/JNZ/CALL across 200 bytes (needs the near form) in front of: PAD EQU limit-$ / RESB PAD, HERE EQU $ / DW HERE, DW $, a label + DW, ALIGNB 16, RESB limit-$ - x BITS x ORG: the bytes between the sentinels must be what the directive model gives at the real addresses",
		Bounds: map[string]any{"branches": mns},
		Build: func(c *core.Chooser) *core.Case {
			mode := []int{16, 32}[c.Pick("mode", 2)]
			mn := mns[c.Pick("mn", 3)]
			origin := []int64{0, 0x7c00}[c.Pick("org", 2)]
			blen := map[string]map[int]int64{"JMP": {16: 3, 32: 5}, "JNZ": {16: 4, 32: 6}, "CALL": {16: 3, 32: 5}}[mn][mode]
			hdr := ""
			if mode == 32 {
				hdr = "[BITS 32]\n"
			}
			if origin != 0 {
				hdr += fmt.Sprintf("\tORG 0x%x\n", origin)
			}
			// layout: branch, 200 zero bytes, over:, sentinel 0, body, sentinel 1
			addr := origin + blen + 200 + 8
			limit := addr + 0x40
			var want []byte
			var body strings.Builder
			emit := func(line string, b []byte) {
				body.WriteString(line + "\n")
				want = append(want, b...)
				addr += int64(len(b))
			}
			emit(fmt.Sprintf("PAD EQU 0x%x-$", limit), nil)
			emit("\tDB 1", []byte{1})
			emit("HERE EQU $", nil)
			here := addr
			emit("\tDW HERE", le(here, 2))
			emit("\tDW $", le(addr, 2))
			emit("lab:", nil)
			lab := addr
			emit("\tDW lab", le(lab, 2))
			emit("\tALIGNB 16", make([]byte, (16-addr%16)%16))
			emit("\tRESB PAD", make([]byte, limit-(origin+blen+200+8)))
			emit(fmt.Sprintf("\tRESB 0x%x-$", addr+5), make([]byte, 5))
			src := hdr + fmt.Sprintf("\t%s over\n\tRESB 200\nover:\n", mn) + sentinelLine(0) + body.String() + sentinelLine(1)
			w := append([]byte{}, want...)
			return &core.Case{
				Key:   fmt.Sprintf("BITS %d|ORG 0x%x|%s over 200 bytes, then directives", mode, origin, mn),
				Feat:  feat("dir", "behind_grown_branch", "mn", mn, "mode", fmt.Sprint(mode)),
				Srcs:  []string{src},
				Judge: func(rs []*core.Result) core.Verdict { return c05JudgeRegion(rs[0], w, origin, true) },
			}
		},
	}
}
