package props

import (
	"fmt"
	"regexp"
	"strings"
	"sync"
	"time"

	"verifengine/core"
)

var c19PosRe = regexp.MustCompile(`(?m)^\s*(\d+):(\d+) \(\d+\)`)

// c19Positions: "non-zero with a message giving the position on a parse error". The position must be the position
// of the error: the line number is the number of line terminators in front of it + 1, whatever the earlier lines
// contain (multi-byte characters directly in front of the line terminator, blank lines, long lines) and whether the
// file uses LF or CRLF; the column must be the one reported for the same line in an ASCII-only LF file.
func c19Positions(r *core.Run) {
	t0 := time.Now()
	p := r.Cfg.Pool
	fillers := []struct{ name, line string }{
		{"ascii_statement", "\tMOV AX,1"},
		{"ascii_comment", "; plain comment"},
		{"sjis_comment_ends_in_kanji", "\tHLT ; \x93\xfa\x96\x7b\x8c\xea"},
		{"sjis_comment_ends_in_0x5c_trail", "; \x83\x5c"},
		{"utf8_comment_ends_in_kanji", "\tNOP ; \xe6\x97\xa5\xe6\x9c\xac"},
		{"blank", ""},
		{"long_line", "\tDB " + strings.Repeat("1,", 400) + "1"},
	}
	errs := []string{"\tMOV AX,,", "\tMOV AX,1 )", "\tDB 1,,2"}
	counts := []int{0, 1, 3, 17}
	eols := []string{"\n", "\r\n"}
	type key struct {
		n, e int
	}
	run := func(n int, fill string, eol string, errLine string) (line, col int, exit int, msg string) {
		var sb strings.Builder
		for i := 0; i < n; i++ {
			sb.WriteString(fill + eol)
		}
		sb.WriteString(errLine + eol + "\tHLT" + eol)
		res := p.CLI(sb.String(), nil, false)
		m := c19PosRe.FindStringSubmatch(res.Stdout + "\n" + res.Stderr)
		if m == nil {
			return -1, -1, res.ExitCode, trunc(res.Stdout+res.Stderr, 200)
		}
		fmt.Sscan(m[1], &line)
		fmt.Sscan(m[2], &col)
		return line, col, res.ExitCode, ""
	}
	// canonical columns
	canon := map[key]int{}
	for _, n := range counts {
		for ei, e := range errs {
			_, col, _, _ := run(n, fillers[0].line, "\n", e)
			canon[key{n, ei}] = col
		}
	}
	var wg sync.WaitGroup
	var mu sync.Mutex
	var spawns int64
	sem := make(chan struct{}, p.N)
	for _, n := range counts {
		for _, f := range fillers {
			for _, eol := range eols {
				for ei, e := range errs {
					wg.Add(1)
					sem <- struct{}{}
					go func(n int, fname, fill, eol string, ei int, e string) {
						defer wg.Done()
						defer func() { <-sem }()
						line, col, exit, msg := run(n, fill, eol, e)
						mu.Lock()
						spawns++
						mu.Unlock()
						k := fmt.Sprintf("%d x %s|eol=%q|%s", n, fname, eol, strings.TrimSpace(e))
						feat := map[string]string{"filler": fname, "n": fmt.Sprint(n), "eol": fmt.Sprintf("%q", eol)}
						r.AddNT("position|" + k)
						switch {
						case exit == 0:
							r.AddFail("parse_error_positions", k, feat, nil, core.Fail{Facet: "exit_code", Dev: "got:0 want:nonzero", Detail: "a source with a syntax error"})
						case line < 0:
							r.AddFail("parse_error_positions", k, feat, nil, core.Fail{Facet: "message", Dev: "no_position", Detail: msg})
						case line != n+1:
							r.AddFail("parse_error_positions", k, feat, nil, core.Fail{Facet: "message", Dev: fmt.Sprintf("line:%+d", line-(n+1)), Detail: fmt.Sprintf("the error is on line %d, reported as %d:%d", n+1, line, col)})
						case col != canon[key{n, ei}]:
							r.AddFail("parse_error_positions", k, feat, nil, core.Fail{Facet: "message", Dev: fmt.Sprintf("column:%+d", col-canon[key{n, ei}]), Detail: fmt.Sprintf("reported %d:%d, the same line in an ASCII LF file is reported at column %d", line, col, canon[key{n, ei}])})
						}
					}(n, f.name, f.line, eol, ei, e)
				}
			}
		}
	}
	wg.Wait()
	r.AddCustom("parse_error_positions", fmt.Sprintf("%d syntax errors in the middle of a line x {0,1,3,17} preceding lines of %d kinds (ASCII, Shift_JIS/UTF-8 comments ending in a multi-byte character directly in front of the line terminator, blank, 800-byte line) x {LF, CRLF} through the REAL command: non-zero exit, reported line == number of preceding lines + 1, reported column == the column reported for the ASCII LF file", len(errs), len(fillers)),
		map[string]any{"errors": errs, "preceding": counts, "fillers": len(fillers)}, spawns+1, spawns, spawns, spawns, 1, true, time.Since(t0).Seconds())
}
