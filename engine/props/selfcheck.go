package props

import (
	"fmt"

	"verifengine/core"
	"verifengine/x86ref"
)

// x86refSelfCheck: decode(encode(i)) == i for the reference encoder's whole catalogue.
func x86refSelfCheck(r *core.Run, tier string) {
	n, bad := x86ref.SelfCheck()
	r.Extra["model_selfcheck_pairs"] = n
	if bad != "" {
		core.Fatalf("x86ref self-check failed: %s", bad)
	}
	fmt.Printf("x86ref self-check: %d encode/decode pairs agree\n", n)
}
