package props

import (
	"bytes"
	"fmt"
	"strings"

	"verifengine/core"
)

// Sentinels: unique 8-byte DB patterns that bracket the region under test. DB of small literals is
// the simplest path through the assembler and is itself verified exhaustively by C05.
func sentinelBytes(k int) []byte {
	return []byte{0xD7, 0x9E, byte(0xB1 + k), 0x6D, 0xE3, byte(0x8A ^ k), 0x5B, 0xC9}
}

func sentinelLine(k int) string {
	b := sentinelBytes(k)
	parts := make([]string, len(b))
	for i, x := range b {
		parts[i] = fmt.Sprintf("0x%02X", x)
	}
	return "\tDB " + strings.Join(parts, ",") + "\n"
}

// findSentinel returns the offset of sentinel k in out, or -1 if it does not occur exactly once.
func findSentinel(out []byte, k int) int {
	s := sentinelBytes(k)
	i := bytes.Index(out, s)
	if i < 0 {
		return -1
	}
	if bytes.Index(out[i+1:], s) >= 0 {
		return -1
	}
	return i
}

// between returns the bytes between sentinel a and sentinel b.
func between(out []byte, a, b int) ([]byte, bool) {
	i, j := findSentinel(out, a), findSentinel(out, b)
	if i < 0 || j < 0 || j < i+8 {
		return nil, false
	}
	return out[i+8 : j], true
}

func hexs(b []byte) string { return fmt.Sprintf("%x", b) }

func feat(kv ...string) map[string]string {
	m := map[string]string{}
	for i := 0; i+1 < len(kv); i += 2 {
		m[kv[i]] = kv[i+1]
	}
	return m
}

func le(v int64, n int) []byte {
	b := make([]byte, n)
	for i := 0; i < n; i++ {
		b[i] = byte(uint64(v) >> (8 * uint(i)))
	}
	return b
}

func rdle(b []byte) int64 {
	var v uint64
	for i := len(b) - 1; i >= 0; i-- {
		v = v<<8 | uint64(b[i])
	}
	return int64(v)
}

func errSummary(r *core.Result) string {
	var parts []string
	if r.Panic != "" {
		parts = append(parts, "panic:"+firstLine(r.Panic))
	}
	if r.ParseErr != "" {
		parts = append(parts, "parse:"+firstLine(r.ParseErr))
	}
	if r.Died {
		parts = append(parts, fmt.Sprintf("exit=%d", r.ExitCode))
	}
	if strings.Contains(r.Stdout, "GOSK :") {
		parts = append(parts, "stdout:"+firstLine(r.Stdout[strings.Index(r.Stdout, "GOSK :"):]))
	}
	for _, l := range core.ErrLines(r) {
		parts = append(parts, l)
	}
	s := strings.Join(parts, " ; ")
	if len(s) > 400 {
		s = s[:400]
	}
	return s
}

func firstLine(s string) string {
	if i := strings.IndexByte(s, '\n'); i >= 0 {
		return s[:i]
	}
	return s
}
