package props

import (
	"fmt"

	"verifengine/core"
	"verifengine/x86ref"
)

// C06, scenario scale_expressions: the scale factor of an index register is a constant expression too. Written as
// a literal, a parenthesised sum, a product, an EQU name or a sum of EQU names it must denote the same scale.
func c06Scale() *core.Scenario {
	spell := map[int][]string{
		1: {"1", "(2-1)", "3-2", "ONE", "(ONE)", "2/2"},
		2: {"2", "(1+1)", "1*2", "TWO", "(ONE+ONE)", "ONE*2", "4/2"},
		4: {"4", "(2+2)", "2*2", "(1+1)*2", "TWO*TWO", "(TWO+TWO)", "8/2"},
		8: {"8", "(4+4)", "2*4", "(1+1)*4", "TWO*4", "(TWO+TWO)*TWO", "16/2"},
	}
	forms := []struct {
		text string
		base string
		disp int64
	}{{"[EBX+ESI*%s]", "EBX", 0}, {"[ESI*%s+8]", "", 8}, {"[ESI*%s]", "", 0}, {"[EBX+ESI*%s+0x100]", "EBX", 0x100}, {"[0x10+ESI*%s]", "", 0x10}}
	return &core.Scenario{
		Name: "scale_expressions", Bound: -1,
		Rule:   "scale factors 1, 2, 4, 8 written in 6-7 ways each (literal, parenthesised sum, product, quotient, EQU name, sums/products of EQU names) x 5 address forms (with and without base and displacement) x {MOV load, MOV store, ADD} x BITS: the decoded address must have index ESI with that scale (or the statement must be refused); non-trivial = assembled",
		Bounds: map[string]any{"spellings": spell, "forms": len(forms)},
		Build: func(c *core.Chooser) *core.Case {
			mode := []int{32, 16}[c.Pick("mode", 2)]
			s := []int{1, 2, 4, 8}[c.Pick("scale", 4)]
			sp := spell[s][c.Pick("spelling", 7)%len(spell[s])]
			f := forms[c.Pick("form", len(forms))]
			carrier := c.Str("carrier", "MOV EAX,%s", "MOV %s,ECX", "ADD EDX,%s")
			mem := fmt.Sprintf(f.text, sp)
			stmt := fmt.Sprintf(carrier, mem)
			hdr := bitsHeader(mode) + "ONE EQU 1\nTWO EQU 2\n"
			src := hdr + sentinelLine(0) + "\t" + stmt + "\n" + sentinelLine(1)
			return &core.Case{
				Key:  fmt.Sprintf("BITS %d|%s", mode, stmt),
				Feat: feat("mode", fmt.Sprint(mode), "scale", fmt.Sprint(s), "spelling", sp, "form", f.text),
				Srcs: []string{src, hdr + sentinelLine(0) + sentinelLine(1)},
				Judge: func(rs []*core.Result) core.Verdict {
					v := core.Verdict{}
					if core.ReportsError(rs[0], rs[1]) {
						v.Outcome = "diagnosed"
						return v
					}
					reg, ok := between(rs[0].Out, 0, 1)
					if !ok {
						v.Fails = []core.Fail{{Facet: "layout", Dev: "sentinels_lost", Detail: hexs(rs[0].Out)}}
						return v
					}
					v.Outcome = "assembled"
					v.Nontrivial = true
					if len(reg) == 0 {
						v.Fails = []core.Fail{{Facet: "value", Dev: "dropped_silently", Detail: stmt + " emitted nothing and no diagnostic"}}
						return v
					}
					in, err := x86ref.Decode(reg, mode)
					if err != nil || in.Len != len(reg) {
						v.Fails = []core.Fail{{Facet: "value", Dev: "undecodable", Detail: fmt.Sprintf("%s -> % X: %v", stmt, reg, err)}}
						return v
					}
					for _, o := range in.Ops {
						if o.Kind != "mem" {
							continue
						}
						m := o.Mem
						idx, sc, base := m.Index, m.Scale, m.Base
						if s == 1 && idx == "" && base == "ESI" && f.base == "" { // [ESI*1+d] may be encoded as [ESI+d]
							idx, sc, base = "ESI", 1, ""
						}
						if s == 1 && f.base == "EBX" && idx == "EBX" && base == "ESI" { // base and unscaled index are interchangeable
							idx, base = "ESI", "EBX"
						}
						if idx != "ESI" || sc != s || base != f.base || m.Disp != f.disp {
							v.Fails = append(v.Fails, core.Fail{Facet: "value", Dev: fmt.Sprintf("scale:%d_for_%d", sc, s), Detail: fmt.Sprintf("%s decodes as %s (% X)", stmt, in.String(), reg)})
						}
						return v
					}
					v.Fails = []core.Fail{{Facet: "value", Dev: "no_memory_operand", Detail: in.String()}}
					return v
				},
			}
		},
	}
}
