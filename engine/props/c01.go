package props

import (
	"fmt"
	"strings"

	"verifengine/core"
	"verifengine/x86ref"
)

// C01 — emitted bytes decode to exactly the source instruction.

var c01NoParam = []string{
	"AAA", "AAD", "AAM", "AAS", "CBW", "CDQ", "CDQE", "CLC", "CLD", "CLI", "CLTS", "CMC",
	"CPUID", "CQO", "CS", "CWD", "CWDE", "DAA", "DAS", "DIV", "DS", "EMMS", "ENTER", "ES",
	"F2XM1", "FABS", "FADDP", "FCHS", "FCLEX", "FCOM", "FCOMP", "FCOMPP", "FCOS", "FDECSTP",
	"FDISI", "FDIVP", "FDIVRP", "FENI", "FINCSTP", "FINIT", "FLD1", "FLDL2E", "FLDL2T",
	"FLDLG2", "FLDLN2", "FLDPI", "FLDZ", "FMULP", "FNCLEX", "FNDISI", "FNENI", "FNINIT",
	"FNOP", "FNSETPM", "FPATAN", "FPREM", "FPREM1", "FPTAN", "FRNDINT", "FRSTOR", "FS",
	"FSCALE", "FSETPM", "FSIN", "FSINCOS", "FSQRT", "FSUBP", "FSUBRP", "FTST", "FUCOM",
	"FUCOMP", "FUCOMPP", "FXAM", "FXCH", "FXRSTOR", "FXTRACT", "FYL2X", "FYL2XP1", "GETSEC",
	"GS", "HLT", "ICEBP", "IDIV", "IMUL", "INTO", "INVD", "IRET", "IRETD", "IRETQ", "JMPE",
	"LAHF", "LEAVE", "LFENCE", "LOADALL", "LOCK", "MFENCE", "MONITOR", "MUL", "MWAIT", "NOP",
	"PAUSE", "POPA", "POPAD", "POPF", "POPFD", "POPFQ", "PUSHA", "PUSHAD", "PUSHF", "PUSHFD",
	"PUSHFQ", "RDMSR", "RDPMC", "RDTSC", "RDTSCP", "REP", "REPE", "REPNE", "RETF", "RETN",
	"RSM", "SAHF", "SETALC", "SFENCE", "SS", "STC", "STD", "STI", "SWAPGS", "SYSCALL",
	"SYSENTER", "SYSEXIT", "SYSRET", "TAKEN", "UD2", "VMCALL", "VMLAUNCH", "VMRESUME",
	"VMXOFF", "WAIT", "WBINVD", "WRMSR", "XGETBV", "XRSTOR", "XSETBV", "RET",
}

var c01Alu = []string{"MOV", "ADD", "ADC", "SUB", "SBB", "CMP", "AND", "OR", "XOR"}

func c01MemShapes(mode int) []memShape {
	return []memShape{
		{"[BX]", x86ref.MemSpec{Base: "BX", AddrSize: 16}},
		{"[SI+4]", x86ref.MemSpec{Base: "SI", Disp: 4, AddrSize: 16}},
		{"[0x1234]", x86ref.MemSpec{Disp: 0x1234, AddrSize: mode, Abs: true}},
		{"[EBX]", x86ref.MemSpec{Base: "EBX", AddrSize: 32}},
		{"[EAX+ECX*4+8]", x86ref.MemSpec{Base: "EAX", Index: "ECX", Scale: 4, Disp: 8, AddrSize: 32}},
		{"[EBP-4]", x86ref.MemSpec{Base: "EBP", Disp: -4, AddrSize: 32}},
	}
}

func c01Scenarios(tier string) []*core.Scenario {
	thorough := true // both tiers explore the full alphabets (the whole check takes < 15 s)
	_ = tier
	imms := immB13
	if thorough {
		imms = immB25()
	}
	modes := []int{16, 32}
	pickMode := func(c *core.Chooser) int { return modes[c.Pick("mode", 2)] }
	widths := []int{8, 16, 32}
	var scs []*core.Scenario

	scs = append(scs, &core.Scenario{Name: "no_operand", Bound: -1,
		Rule:   "every operand-less mnemonic of the assembler's list (those with an operand-less encoding in 16/32-bit mode) x BITS; non-trivial = assembled without error and emitted >= 1 byte; distinct = distinct (mode, bytes)",
		Bounds: map[string]any{"mnemonics": len(c01NoParam), "modes": modes},
		Build: func(c *core.Chooser) *core.Case {
			mode := pickMode(c)
			mn := c01NoParam[c.Pick("mn", len(c01NoParam))]
			if _, bad := x86ref.NotEncodable[mn]; bad {
				return nil
			}
			return insnCase(mode, mn, x86ref.Want{Op: mn, Fixed: true}, feat("form", "noparam", "mn", mn), nil)
		}})

	scs = append(scs, &core.Scenario{Name: "reg_reg", Bound: -1,
		Rule:   "9 two-operand ALU/MOV operations x 3 widths x every register in both slots x BITS",
		Bounds: map[string]any{"ops": c01Alu, "widths": widths, "registers": "all 8 per width in each slot"},
		Build: func(c *core.Chooser) *core.Case {
			mode := pickMode(c)
			mn := c01Alu[c.Pick("mn", len(c01Alu))]
			w := widths[c.Pick("w", 3)]
			regs := regsOf(w)
			a, b := regs[c.Pick("dst", 8)], regs[c.Pick("src", 8)]
			return insnCase(mode, fmt.Sprintf("%s %s,%s", mn, a, b),
				x86ref.Want{Op: mn, OpSize: w, Ops: []x86ref.WantOp{wreg(a), wreg(b)}},
				feat("form", "r,r", "mn", mn, "w", fmt.Sprint(w), "dst", a, "src", b), nil)
		}})

	scs = append(scs, &core.Scenario{Name: "reg_imm", Bound: -1,
		Rule:   "9 operations x all 24 registers x boundary immediates x BITS",
		Bounds: map[string]any{"ops": c01Alu, "immediates": imms},
		Build: func(c *core.Chooser) *core.Case {
			mode := pickMode(c)
			mn := c01Alu[c.Pick("mn", len(c01Alu))]
			w := widths[c.Pick("w", 3)]
			a := regsOf(w)[c.Pick("dst", 8)]
			iv := imms[c.Pick("imm", len(imms))]
			return insnCase(mode, fmt.Sprintf("%s %s,%s", mn, a, immText(iv)),
				x86ref.Want{Op: mn, OpSize: w, Ops: []x86ref.WantOp{wreg(a), wimm(iv, w)}},
				feat("form", "r,imm", "mn", mn, "w", fmt.Sprint(w), "dst", a, "imm", immText(iv), "immclass", immClass(iv), "acc", fmt.Sprint(a == "AL" || a == "AX" || a == "EAX")), nil)
		}})

	rmOps := []string{"MOV", "ADD", "CMP"}
	if thorough {
		rmOps = c01Alu
	}
	scs = append(scs, &core.Scenario{Name: "reg_mem", Bound: -1,
		Rule:   "operations x all 24 registers x 6 representative memory shapes x both directions x BITS (the full shape space is C02's)",
		Bounds: map[string]any{"ops": rmOps, "shapes": 6},
		Build: func(c *core.Chooser) *core.Case {
			mode := pickMode(c)
			mn := rmOps[c.Pick("mn", len(rmOps))]
			w := widths[c.Pick("w", 3)]
			a := regsOf(w)[c.Pick("reg", 8)]
			sh := c01MemShapes(mode)
			m := sh[c.Pick("shape", len(sh))]
			if c.Bool("store") {
				return insnCase(mode, fmt.Sprintf("%s %s,%s", mn, m.text, a),
					x86ref.Want{Op: mn, OpSize: w, Ops: []x86ref.WantOp{wmem(m, w), wreg(a)}},
					feat("form", "m,r", "mn", mn, "w", fmt.Sprint(w), "reg", a, "shape", m.text), nil)
			}
			return insnCase(mode, fmt.Sprintf("%s %s,%s", mn, a, m.text),
				x86ref.Want{Op: mn, OpSize: w, Ops: []x86ref.WantOp{wreg(a), wmem(m, w)}},
				feat("form", "r,m", "mn", mn, "w", fmt.Sprint(w), "reg", a, "shape", m.text), nil)
		}})

	miOps := []string{"MOV", "ADD", "CMP", "AND"}
	if thorough {
		miOps = c01Alu
	}
	scs = append(scs, &core.Scenario{Name: "mem_imm", Bound: -1,
		Rule:   "operations x BYTE/WORD/DWORD x 6 memory shapes x boundary immediates x BITS",
		Bounds: map[string]any{"ops": miOps, "shapes": 6, "immediates": imms},
		Build: func(c *core.Chooser) *core.Case {
			mode := pickMode(c)
			mn := miOps[c.Pick("mn", len(miOps))]
			w := widths[c.Pick("w", 3)]
			sh := c01MemShapes(mode)
			m := sh[c.Pick("shape", len(sh))]
			iv := imms[c.Pick("imm", len(imms))]
			return insnCase(mode, fmt.Sprintf("%s %s %s,%s", mn, sizeKw(w), m.text, immText(iv)),
				x86ref.Want{Op: mn, OpSize: w, Ops: []x86ref.WantOp{wmem(m, w), wimm(iv, w)}},
				feat("form", "m,imm", "mn", mn, "w", fmt.Sprint(w), "shape", m.text, "imm", immText(iv), "immclass", immClass(iv)), nil)
		}})

	unary := []string{"NOT", "INC", "DEC", "NEG", "MUL", "IMUL", "DIV", "IDIV"}
	scs = append(scs, &core.Scenario{Name: "unary", Bound: -1,
		Rule:   "8 one-operand operations x all 24 registers and sized memory operands x BITS",
		Bounds: map[string]any{"ops": unary},
		Build: func(c *core.Chooser) *core.Case {
			mode := pickMode(c)
			mn := unary[c.Pick("mn", len(unary))]
			w := widths[c.Pick("w", 3)]
			k := c.Pick("operand", 8+6)
			if k < 8 {
				a := regsOf(w)[k]
				return insnCase(mode, fmt.Sprintf("%s %s", mn, a), x86ref.Want{Op: mn, OpSize: w, Ops: []x86ref.WantOp{wreg(a)}},
					feat("form", "r", "mn", mn, "w", fmt.Sprint(w), "reg", a), nil)
			}
			m := c01MemShapes(mode)[k-8]
			return insnCase(mode, fmt.Sprintf("%s %s %s", mn, sizeKw(w), m.text), x86ref.Want{Op: mn, OpSize: w, Ops: []x86ref.WantOp{wmem(m, w)}},
				feat("form", "m", "mn", mn, "w", fmt.Sprint(w), "shape", m.text), nil)
		}})

	shifts := []string{"SHL", "SHR", "SAR"}
	counts := []string{"1", "2", "7", "8", "31", "CL"}
	scs = append(scs, &core.Scenario{Name: "shift", Bound: -1,
		Rule:   "SHL/SHR/SAR x all 24 registers (and sized memory) x counts {1,2,7,8,31,CL} x BITS",
		Bounds: map[string]any{"ops": shifts, "counts": counts},
		Build: func(c *core.Chooser) *core.Case {
			mode := pickMode(c)
			mn := shifts[c.Pick("mn", 3)]
			w := widths[c.Pick("w", 3)]
			k := c.Pick("operand", 8+2)
			cnt := counts[c.Pick("count", len(counts))]
			var cop x86ref.WantOp
			if cnt == "CL" {
				cop = wreg("CL")
			} else {
				var n int64
				fmt.Sscan(cnt, &n)
				cop = wimm(n, 8)
			}
			if k < 8 {
				a := regsOf(w)[k]
				return insnCase(mode, fmt.Sprintf("%s %s,%s", mn, a, cnt), x86ref.Want{Op: mn, OpSize: w, Ops: []x86ref.WantOp{wreg(a), cop}},
					feat("form", "r,count", "mn", mn, "w", fmt.Sprint(w), "reg", a, "count", cnt), nil)
			}
			m := c01MemShapes(mode)[[]int{0, 3}[k-8]]
			return insnCase(mode, fmt.Sprintf("%s %s %s,%s", mn, sizeKw(w), m.text, cnt), x86ref.Want{Op: mn, OpSize: w, Ops: []x86ref.WantOp{wmem(m, w), cop}},
				feat("form", "m,count", "mn", mn, "w", fmt.Sprint(w), "shape", m.text, "count", cnt), nil)
		}})

	crs := []string{"CR0", "CR2", "CR3", "CR4"}
	scs = append(scs, &core.Scenario{Name: "sreg_creg", Bound: -1,
		Rule:   "MOV Sreg,r16 / MOV r16,Sreg for all 6x8, MOV CRn,r32 / MOV r32,CRn for all 4x8, MOV Sreg,m16 / MOV m16,Sreg for 6 x 6 memory shapes (with and without WORD), x BITS",
		Bounds: map[string]any{"sregs": x86ref.SReg, "cregs": crs},
		Build: func(c *core.Chooser) *core.Case {
			mode := pickMode(c)
			cls := c.Pick("class", 3)
			if cls == 2 { // MOV m16,Sreg / MOV Sreg,m16 (8C /r, 8E /r with a memory operand)
				s := x86ref.SReg[c.Pick("sreg", 6)]
				sh := c01MemShapes(mode)
				m := sh[c.Pick("shape", len(sh))]
				kw := []string{"", "WORD "}[c.Pick("sizekw", 2)]
				if c.Bool("from") {
					return insnCase(mode, fmt.Sprintf("MOV %s%s,%s", kw, m.text, s), x86ref.Want{Op: "MOV", Allow66: true, Ops: []x86ref.WantOp{wmem(m, 16), wreg(s)}},
						feat("form", "m,sreg", "mn", "MOV", "sreg", s, "shape", m.text, "sizekw", kw), nil)
				}
				return insnCase(mode, fmt.Sprintf("MOV %s,%s%s", s, kw, m.text), x86ref.Want{Op: "MOV", Allow66: true, Ops: []x86ref.WantOp{wreg(s), wmem(m, 16)}},
					feat("form", "sreg,m", "mn", "MOV", "sreg", s, "shape", m.text, "sizekw", kw), nil)
			}
			if cls == 0 {
				s := x86ref.SReg[c.Pick("sreg", 6)]
				r := x86ref.Reg16[c.Pick("reg", 8)]
				if c.Bool("from") {
					return insnCase(mode, fmt.Sprintf("MOV %s,%s", r, s), x86ref.Want{Op: "MOV", Ops: []x86ref.WantOp{wreg(r), wreg(s)}},
						feat("form", "r,sreg", "mn", "MOV", "sreg", s, "reg", r), nil)
				}
				return insnCase(mode, fmt.Sprintf("MOV %s,%s", s, r), x86ref.Want{Op: "MOV", Ops: []x86ref.WantOp{wreg(s), wreg(r)}},
					feat("form", "sreg,r", "mn", "MOV", "sreg", s, "reg", r), nil)
			}
			cr := crs[c.Pick("creg", 4)]
			r := x86ref.Reg32[c.Pick("reg", 8)]
			if c.Bool("from") {
				return insnCase(mode, fmt.Sprintf("MOV %s,%s", r, cr), x86ref.Want{Op: "MOV", Ops: []x86ref.WantOp{wreg(r), wreg(cr)}},
					feat("form", "r,creg", "mn", "MOV", "creg", cr, "reg", r), nil)
			}
			return insnCase(mode, fmt.Sprintf("MOV %s,%s", cr, r), x86ref.Want{Op: "MOV", Ops: []x86ref.WantOp{wreg(cr), wreg(r)}},
				feat("form", "creg,r", "mn", "MOV", "creg", cr, "reg", r), nil)
		}})

	ports := []string{"DX", "0", "1", "0x7f", "0x80", "0xff"}
	accs := []string{"AL", "AX", "EAX"}
	scs = append(scs, &core.Scenario{Name: "in_out", Bound: -1,
		Rule:   "IN/OUT x {AL,AX,EAX} x port {DX,0,1,0x7f,0x80,0xff} x BITS",
		Bounds: map[string]any{"ports": ports},
		Build: func(c *core.Chooser) *core.Case {
			mode := pickMode(c)
			out := c.Bool("out")
			a := accs[c.Pick("acc", 3)]
			_, w, _ := x86ref.RegInfo(a)
			p := ports[c.Pick("port", len(ports))]
			var pop x86ref.WantOp
			if p == "DX" {
				pop = wreg("DX")
			} else {
				var n int64
				fmt.Sscanf(p, "%v", &n)
				pop = wimm(n, 8)
			}
			if out {
				return insnCase(mode, fmt.Sprintf("OUT %s,%s", p, a), x86ref.Want{Op: "OUT", OpSize: w, Ops: []x86ref.WantOp{pop, wreg(a)}},
					feat("form", "out", "mn", "OUT", "acc", a, "port", p), nil)
			}
			return insnCase(mode, fmt.Sprintf("IN %s,%s", a, p), x86ref.Want{Op: "IN", OpSize: w, Ops: []x86ref.WantOp{wreg(a), pop}},
				feat("form", "in", "mn", "IN", "acc", a, "port", p), nil)
		}})

	scs = append(scs, &core.Scenario{Name: "stack", Bound: -1,
		Rule:   "PUSH/POP x every r16, r32, segment register and sized memory operand; PUSH imm x boundary immediates; x BITS",
		Bounds: map[string]any{"immediates": imms},
		Build: func(c *core.Chooser) *core.Case {
			mode := pickMode(c)
			k := c.Pick("kind", 5)
			switch k {
			case 0, 1:
				w := []int{16, 32}[k]
				mn := c.Str("mn", "PUSH", "POP")
				a := regsOf(w)[c.Pick("reg", 8)]
				return insnCase(mode, mn+" "+a, x86ref.Want{Op: mn, OpSize: w, Ops: []x86ref.WantOp{wreg(a)}},
					feat("form", "r", "mn", mn, "w", fmt.Sprint(w), "reg", a), nil)
			case 2:
				mn := c.Str("mn", "PUSH", "POP")
				s := x86ref.SReg[c.Pick("sreg", 6)]
				if mn == "POP" && s == "CS" {
					return nil
				}
				return insnCase(mode, mn+" "+s, x86ref.Want{Op: mn, OpSize: mode, Ops: []x86ref.WantOp{wreg(s)}},
					feat("form", "sreg", "mn", mn, "sreg", s), nil)
			case 3:
				mn := c.Str("mn", "PUSH", "POP")
				w := []int{16, 32}[c.Pick("w", 2)]
				sh := c01MemShapes(mode)
				m := sh[c.Pick("shape", len(sh))]
				return insnCase(mode, fmt.Sprintf("%s %s %s", mn, sizeKw(w), m.text), x86ref.Want{Op: mn, OpSize: w, Ops: []x86ref.WantOp{wmem(m, w)}},
					feat("form", "m", "mn", mn, "w", fmt.Sprint(w), "shape", m.text), nil)
			}
			iv := imms[c.Pick("imm", len(imms))]
			return insnCase(mode, "PUSH "+immText(iv), x86ref.Want{Op: "PUSH", OpSize: mode, Ops: []x86ref.WantOp{wimm(iv, mode)}},
				feat("form", "imm", "mn", "PUSH", "imm", immText(iv), "immclass", immClass(iv)), nil)
		}})

	scs = append(scs, &core.Scenario{Name: "imul", Bound: -1,
		Rule:   "IMUL r,r / r,imm / r,r,imm for every 16/32-bit register pair (reduced source set for the 3-operand form) x boundary immediates x BITS",
		Bounds: map[string]any{"immediates": imms},
		Build: func(c *core.Chooser) *core.Case {
			mode := pickMode(c)
			w := []int{16, 32}[c.Pick("w", 2)]
			regs := regsOf(w)
			a := regs[c.Pick("dst", 8)]
			switch c.Pick("form", 3) {
			case 0:
				b := regs[c.Pick("src", 8)]
				return insnCase(mode, fmt.Sprintf("IMUL %s,%s", a, b), x86ref.Want{Op: "IMUL", OpSize: w, Ops: []x86ref.WantOp{wreg(a), wreg(b)}},
					feat("form", "r,r", "mn", "IMUL", "w", fmt.Sprint(w), "dst", a, "src", b), nil)
			case 1:
				iv := imms[c.Pick("imm", len(imms))]
				return insnCase(mode, fmt.Sprintf("IMUL %s,%s", a, immText(iv)), x86ref.Want{Op: "IMUL", OpSize: w, Ops: []x86ref.WantOp{wreg(a), wreg(a), wimm(iv, w)}},
					feat("form", "r,imm", "mn", "IMUL", "w", fmt.Sprint(w), "dst", a, "imm", immText(iv), "immclass", immClass(iv)), nil)
			}
			b := regs[[]int{0, 3, 5}[c.Pick("src", 3)]]
			iv := imms[c.Pick("imm", len(imms))]
			return insnCase(mode, fmt.Sprintf("IMUL %s,%s,%s", a, b, immText(iv)), x86ref.Want{Op: "IMUL", OpSize: w, Ops: []x86ref.WantOp{wreg(a), wreg(b), wimm(iv, w)}},
				feat("form", "r,r,imm", "mn", "IMUL", "w", fmt.Sprint(w), "dst", a, "src", b, "imm", immText(iv), "immclass", immClass(iv)), nil)
		}})

	scs = append(scs, &core.Scenario{Name: "int_lgdt_ret", Bound: -1,
		Rule:   "INT n for ALL n in 0..255 written in decimal and hexadecimal; INT 3; LGDT [abs]; RET; x BITS",
		Bounds: map[string]any{"int_numbers": "0..255 x {decimal, hex}"},
		Build: func(c *core.Chooser) *core.Case {
			mode := pickMode(c)
			k := c.Pick("kind", 3)
			if k == 0 {
				n := int64(c.Pick("n", 256))
				txt := fmt.Sprint(n)
				hex := c.Bool("hex")
				if hex {
					txt = fmt.Sprintf("0x%02x", n)
				}
				w := x86ref.Want{Op: "INT", Ops: []x86ref.WantOp{wimm(n, 8)}}
				return insnCase(mode, "INT "+txt, w, feat("form", "int", "mn", "INT", "n", fmt.Sprint(n), "hex", fmt.Sprint(hex), "ge128", fmt.Sprint(n >= 128)),
					func(out []byte, got x86ref.Inst) []core.Fail { return nil })
			}
			if k == 1 {
				addrs := []int64{0, 0x7c00, 0xffff}
				a := addrs[c.Pick("addr", len(addrs))]
				m := memShape{fmt.Sprintf("[0x%x]", a), x86ref.MemSpec{Disp: a, AddrSize: mode, Abs: true}}
				return insnCase(mode, "LGDT "+m.text, x86ref.Want{Op: "LGDT", Ops: []x86ref.WantOp{wmem(m, 48)}}, feat("form", "lgdt", "mn", "LGDT", "addr", m.text), nil)
			}
			return insnCase(mode, "RET", x86ref.Want{Op: "RET", Fixed: true}, feat("form", "noparam", "mn", "RET"), nil)
		}})
	scs = append(scs, memLabelScenario("mem_label"))
	ctx := c02Context()
	ctx.Name = "reg_mem_behind_same_shape"
	scs = append(scs, ctx)
	scs = append(scs, modeContextScenario("statement_in_mode_switching_file"))
	return scs
}

// memLabelScenario (C01 mem_label, C02 ea_label): a label written as the memory address.
func memLabelScenario(name string) *core.Scenario {
	// a label written as the memory address: [lab] with and without size keyword, in every form that takes memory
	labForms := []struct {
		name string
		text func(w int, kw string) string
		want func(w int, m x86ref.WantOp) x86ref.Want
	}{
		{"store_imm", func(w int, kw string) string { return "MOV " + kw + "[lab],0x5a" }, func(w int, m x86ref.WantOp) x86ref.Want {
			return x86ref.Want{Op: "MOV", OpSize: w, Ops: []x86ref.WantOp{m, wimm(0x5a, w)}}
		}},
		{"add_imm", func(w int, kw string) string { return "ADD " + kw + "[lab],1" }, func(w int, m x86ref.WantOp) x86ref.Want {
			return x86ref.Want{Op: "ADD", OpSize: w, Ops: []x86ref.WantOp{m, wimm(1, w)}}
		}},
		{"cmp_imm", func(w int, kw string) string { return "CMP " + kw + "[lab],0x80" }, func(w int, m x86ref.WantOp) x86ref.Want {
			return x86ref.Want{Op: "CMP", OpSize: w, Ops: []x86ref.WantOp{m, wimm(0x80, w)}}
		}},
		{"not", func(w int, kw string) string { return "NOT " + kw + "[lab]" }, func(w int, m x86ref.WantOp) x86ref.Want {
			return x86ref.Want{Op: "NOT", OpSize: w, Ops: []x86ref.WantOp{m}}
		}},
		{"shl", func(w int, kw string) string { return "SHL " + kw + "[lab],1" }, func(w int, m x86ref.WantOp) x86ref.Want {
			return x86ref.Want{Op: "SHL", OpSize: w, Ops: []x86ref.WantOp{m, wimm(1, 8)}}
		}},
		{"shr", func(w int, kw string) string { return "SHR " + kw + "[lab],4" }, func(w int, m x86ref.WantOp) x86ref.Want {
			return x86ref.Want{Op: "SHR", OpSize: w, Ops: []x86ref.WantOp{m, wimm(4, 8)}}
		}},
		{"sar", func(w int, kw string) string { return "SAR " + kw + "[lab],1" }, func(w int, m x86ref.WantOp) x86ref.Want {
			return x86ref.Want{Op: "SAR", OpSize: w, Ops: []x86ref.WantOp{m, wimm(1, 8)}}
		}},
		{"and_imm", func(w int, kw string) string { return "AND " + kw + "[lab],0x0f" }, func(w int, m x86ref.WantOp) x86ref.Want {
			return x86ref.Want{Op: "AND", OpSize: w, Ops: []x86ref.WantOp{m, wimm(0x0f, w)}}
		}},
		{"xor_store", func(w int, kw string) string { return "XOR " + kw + "[lab]," + regsOf(w)[1] }, func(w int, m x86ref.WantOp) x86ref.Want {
			return x86ref.Want{Op: "XOR", OpSize: w, Ops: []x86ref.WantOp{m, wreg(regsOf(w)[1])}}
		}},
		{"or_load", func(w int, kw string) string { return "OR " + regsOf(w)[3] + "," + kw + "[lab]" }, func(w int, m x86ref.WantOp) x86ref.Want {
			return x86ref.Want{Op: "OR", OpSize: w, Ops: []x86ref.WantOp{wreg(regsOf(w)[3]), m}}
		}},
		{"cmp_load", func(w int, kw string) string { return "CMP " + regsOf(w)[0] + "," + kw + "[lab]" }, func(w int, m x86ref.WantOp) x86ref.Want {
			return x86ref.Want{Op: "CMP", OpSize: w, Ops: []x86ref.WantOp{wreg(regsOf(w)[0]), m}}
		}},
		{"load", func(w int, kw string) string { return "MOV " + regsOf(w)[1] + "," + kw + "[lab]" }, func(w int, m x86ref.WantOp) x86ref.Want {
			return x86ref.Want{Op: "MOV", OpSize: w, Ops: []x86ref.WantOp{wreg(regsOf(w)[1]), m}}
		}},
		{"load_acc", func(w int, kw string) string { return "MOV " + regsOf(w)[0] + "," + kw + "[lab]" }, func(w int, m x86ref.WantOp) x86ref.Want {
			return x86ref.Want{Op: "MOV", OpSize: w, Ops: []x86ref.WantOp{wreg(regsOf(w)[0]), m}}
		}},
		{"store", func(w int, kw string) string { return "MOV " + kw + "[lab]," + regsOf(w)[3] }, func(w int, m x86ref.WantOp) x86ref.Want {
			return x86ref.Want{Op: "MOV", OpSize: w, Ops: []x86ref.WantOp{m, wreg(regsOf(w)[3])}}
		}},
		{"sub_reg", func(w int, kw string) string { return "SUB " + regsOf(w)[2] + "," + kw + "[lab]" }, func(w int, m x86ref.WantOp) x86ref.Want {
			return x86ref.Want{Op: "SUB", OpSize: w, Ops: []x86ref.WantOp{wreg(regsOf(w)[2]), m}}
		}},
	}
	labOrgs := []int64{0, 0x7c00}
	return &core.Scenario{Name: name, Bound: -1,
		Rule:   "a label as memory address ([lab], label defined right behind the statement, its address computed from the emitted length) x 15 instruction forms x BYTE/WORD/DWORD x size keyword present/absent (absent only where a register fixes the size) x ORG {0, 0x7c00} x BITS",
		Bounds: map[string]any{"forms": len(labForms), "orgs": labOrgs},
		Build: func(c *core.Chooser) *core.Case {
			mode := []int{16, 32}[c.Pick("mode", 2)]
			f := labForms[c.Pick("form", len(labForms))]
			w := []int{8, 16, 32}[c.Pick("w", 3)]
			withKw := c.Bool("sizekw")
			org := labOrgs[c.Pick("org", len(labOrgs))]
			labName := []string{"lab", "DRIVE", "TRACK", "CRTMODE", "MMAP", "XMMSAVE", "st0p"}[c.Pick("label_name", 7)] // names that begin like numbered register families
			hasReg := f.name == "load" || f.name == "load_acc" || f.name == "store" || f.name == "sub_reg" || f.name == "xor_store" || f.name == "or_load" || f.name == "cmp_load"
			if !withKw && !hasReg {
				return nil // the operand size would be unspecified
			}
			kw := ""
			if withKw {
				kw = sizeKw(w) + " "
			}
			stmt := strings.ReplaceAll(f.text(w, kw), "[lab]", "["+labName+"]")
			head := bitsHeader(mode) + fmt.Sprintf("\tORG 0x%x\n", org)
			src := head + "\t" + stmt + "\n" + labName + ":\n\tDB 0x5a\n"
			base := head + labName + ":\n\tDB 0x5a\n"
			ft := feat("form", "m_label", "mn", f.name, "w", fmt.Sprint(w), "sizekw", fmt.Sprint(withKw), "org", fmt.Sprintf("0x%x", org))
			ft["mode"] = fmt.Sprint(mode)
			return &core.Case{Key: fmt.Sprintf("BITS %d|ORG 0x%x|%s ; %s:", mode, org, stmt, labName), Feat: ft, Srcs: []string{src, base},
				Judge: func(rs []*core.Result) core.Verdict {
					r, b := rs[0], rs[1]
					v := core.Verdict{}
					if core.ReportsError(r, b) {
						v.Outcome = "diagnosed"
						return v
					}
					if len(r.Out) < 2 || r.Out[len(r.Out)-1] != 0x5a {
						v.Outcome = "mismatch"
						v.Fails = append(v.Fails, core.Fail{Facet: "dropped_silently", Dev: "no_bytes", Detail: fmt.Sprintf("output % X", r.Out)})
						return v
					}
					out := r.Out[:len(r.Out)-1]
					addr := org + int64(len(out))
					m := x86ref.WantOp{Kind: "mem", Size: w, Mem: x86ref.MemSpec{Disp: addr, AddrSize: mode, Abs: true}}
					diffs, _ := x86ref.Compare(out, mode, f.want(w, m))
					v.Outcome, v.Nontrivial, v.NTKey = "ok", true, fmt.Sprintf("%d:%x", mode, out)
					for _, d := range diffs {
						v.Fails = append(v.Fails, core.Fail{Facet: d.Facet, Dev: d.Dev, Detail: d.Info})
						v.Outcome = "mismatch"
					}
					return v
				}}
		}}
}

func init() {
	register(&Property{
		ID:        "C01",
		Scenarios: c01Scenarios,
		Pre:       x86refSelfCheck,
		Assumptions: []string{
			"x86ref (decoder written from the Intel SDM opcode maps for the subset gosk can emit) is the ISA definition; it is cross-checked against binutils objdump in the thorough tier when objdump is present",
			"a statement for which gosk reports an error (DESIGN.md section 5) is not judged",
			"for the un-suffixed PUSHA/POPA/PUSHF/POPF/IRET both operand-size readings are accepted (NASM/NASK read them as mode-default, the Intel manual as 16-bit)",
			"INT 3 written as 'INT 3' may be encoded as CC or CD 03",
		},
	})
}
