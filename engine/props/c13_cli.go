package props

import (
	"fmt"
	"strings"
	"sync"
	"time"

	"verifengine/core"
)

// C13 through the real command: the command reads, decodes and pre-scans the file before the parser sees it
// (cmd/gosk/main.go); none of that runs in the in-process worker. Every file of at most one byte and a list of
// degenerate files are assembled by the command itself: it must terminate without a Go panic.
func c13CLIInputs(r *core.Run, tier string) {
	t0 := time.Now()
	p := r.Cfg.Pool
	type inp struct{ name, src string }
	var ins []inp
	ins = append(ins, inp{"empty_file", ""})
	for b := 0; b < 256; b++ {
		ins = append(ins, inp{fmt.Sprintf("byte_%02x", b), string([]byte{byte(b)})})
	}
	for _, e := range []string{"\n", "\r\n", "\r"} {
		ins = append(ins, inp{fmt.Sprintf("only_eol_%q", e), e}, inp{fmt.Sprintf("two_eols_%q", e), e + e},
			inp{fmt.Sprintf("stmt_no_final_eol_%q", e), "\tMOV AX,1" + e + "\tHLT"}, inp{fmt.Sprintf("comment_only_%q", e), "; c" + e})
	}
	ins = append(ins,
		inp{"comment_no_eol", "; only a comment"}, inp{"hash_no_eol", "#"}, inp{"label_no_eol", "fin:"}, inp{"blank_line_of_spaces", "   \t  "},
		inp{"utf8_bom", "\xef\xbb\xbf\tHLT\n"}, inp{"utf16_bom", "\xff\xfe\tHLT\n"}, inp{"nul_bytes", "\x00\x00\x00\n"}, inp{"ctrl_z_eof", "\tHLT\n\x1a"},
		inp{"lone_sjis_lead_byte", "\tHLT ; \x83"}, inp{"lone_sjis_lead_at_eof", "\x83"}, inp{"truncated_utf8", "\tHLT ; \xe6\x97"},
		inp{"only_quote", "\""}, inp{"only_bracket", "["}, inp{"only_colon", ":"}, inp{"db_open_string", "\tDB \""},
		inp{"spaces_64k", strings.Repeat(" ", 70000)}, inp{"newlines_64k", strings.Repeat("\n", 70000)}, inp{"one_line_128k_comment", ";" + strings.Repeat("x", 131072)},
		inp{"format_only", "[FORMAT \"WCOFF\"]\n"}, inp{"format_no_eol", "[FORMAT \"WCOFF\"]"}, inp{"file_only", "[FILE \"\"]\n"}, inp{"global_only", "\tGLOBAL x"},
	)
	var wg sync.WaitGroup
	var mu sync.Mutex
	var spawns int64
	sem := make(chan struct{}, p.N)
	for _, in := range ins {
		wg.Add(1)
		sem <- struct{}{}
		go func(in inp) {
			defer wg.Done()
			defer func() { <-sem }()
			res := p.CLI(in.src, nil, false)
			mu.Lock()
			spawns++
			mu.Unlock()
			r.AddNT("cli_input|" + in.name)
			feat := map[string]string{"input": in.name}
			switch {
			case res.Timeout:
				r.AddFail("cli_inputs", in.name, feat, []string{in.src}, core.Fail{Facet: "hang", Dev: "timeout", Detail: "the command did not terminate"})
			case res.Panic != "" || (res.ExitCode == 2 && strings.Contains(res.Stderr, "goroutine ")):
				sig := panicSig(res.Panic)
				if strings.Contains(res.Stderr, "stack overflow") {
					sig = "stack_overflow"
				}
				r.AddFail("cli_inputs", in.name, feat, []string{in.src}, core.Fail{Facet: "panic", Dev: sig, Detail: trunc(res.Panic+res.Stderr, 400)})
			}
		}(in)
	}
	wg.Wait()
	r.AddSample(map[string]any{"cli_input": "a zero-byte source file through the real command"})
	r.AddCustom("cli_inputs", fmt.Sprintf("%d files assembled by the REAL command: the empty file, every one-byte file, line-ending-only files, statements/comments/labels without a final line ending, byte-order marks, NUL bytes, DOS EOF, broken multi-byte sequences, lone punctuation, 64-128 KiB of blanks/newlines/one comment line, directive-only objects: the command must terminate without a Go panic", len(ins)),
		map[string]any{"inputs": len(ins)}, spawns+1, spawns, spawns, spawns, 1, true, time.Since(t0).Seconds())
}
