package props

import (
	"fmt"
	"strings"

	"verifengine/core"
)

// coffShapesScenario (C08 and C09): shapes of a WCOFF source that the GLOBAL/FILE product does not vary:
// where (and whether) the BITS directive stands relative to [FORMAT "WCOFF"], and how the code ends (an
// instruction, reserved space, data, padding, a label with nothing behind it). The flat binary of the same
// source without the FORMAT line is the reference for .text; labels are located by sentinels.
func coffShapesScenario(wantC08, wantC09 bool) *core.Scenario {
	heads := []string{"format_bits32", "format_only", "bits16_format", "format_bits16", "bits32_format", "format_bits32_instrset_last"}
	tails := []string{"ret", "resb8", "resb_large", "db0", "alignb16", "end_label", "end_label_after_resb", "dw_label"}
	return &core.Scenario{
		Name: "coff_shapes", Bound: -1,
		Rule:   "4 labelled routines (mode-sensitive instructions) x 6 arrangements of [FORMAT]/[BITS]/[INSTRSET] (incl. no BITS at all and BITS 16) x 8 endings of the code (instruction, RESB 8, RESB 5000, DB 0, ALIGNB 16, a GLOBAL label with nothing behind it - also behind a RESB -, DW of a label) x GLOBAL {all, none} x {all branches short, a Jcc and a CALL across 300 bytes (second pass-1 run)}: every structural rule, .text == flat binary of the same source without FORMAT, symbol values == sentinel-located offsets",
		Bounds: map[string]any{"heads": heads, "tails": tails},
		Build: func(c *core.Chooser) *core.Case {
			hd := heads[c.Pick("head", len(heads))]
			tl := tails[c.Pick("tail", len(tails))]
			allGlobal := !c.Bool("no_globals")
			relax := c.Bool("long_branch") // a Jcc that does not reach with rel8: pass 1 runs a second time (branch relaxation)
			names := [4]string{"_alpha", "_beta_long_name", "_c", "_delta123"}
			cc := coffCase{body: "shapes", labelSentry: map[string]int{}}
			r0 := "\tMOV EAX,1\n\tMOV AX,[BX+2]\n\tRET\n"
			if relax {
				r0 = "\tMOV EAX,1\n\tJNZ _delta123\n\tCALL _c\n\tRESB 300\n\tMOV AX,[BX+2]\n\tRET\n"
			}
			routines := []string{r0, "\tPUSH 0x1234\n\tRET\n", "\tMOV ECX,[ESP+4]\n\tADD WORD [0x0ff0],1\n\tRET\n", "\tHLT\n"}
			var text strings.Builder
			for i := 0; i < 4; i++ {
				text.WriteString(names[i] + ":\n" + sentinelLine(10+i) + routines[i])
				cc.labelNames = append(cc.labelNames, names[i])
				cc.labelSentry[names[i]] = 10 + i
			}
			endLabel := false
			switch tl {
			case "ret":
			case "resb8":
				text.WriteString("\tRESB 8\n")
			case "resb_large":
				text.WriteString("\tRESB 5000\n")
			case "db0":
				text.WriteString("\tDB 0,0\n")
			case "alignb16":
				text.WriteString("\tALIGNB 16\n")
			case "end_label":
				text.WriteString("_end_of_code:\n")
				endLabel = true
			case "end_label_after_resb":
				text.WriteString("\tRESB 12\n_end_of_code:\n")
				endLabel = true
			case "dw_label":
				text.WriteString("\tDD _c\n")
			}
			if endLabel {
				cc.labelNames = append(cc.labelNames, "_end_of_code")
				cc.labelSentry["_end_of_code"] = -1 // located at the end of the flat binary
			}
			if allGlobal {
				cc.globals = append([]string{}, cc.labelNames...)
			}
			glob := ""
			if len(cc.globals) > 0 {
				glob = "\tGLOBAL " + strings.Join(cc.globals, ", ") + "\n"
			}
			cc.fileHas, cc.fileName = true, "shapes.nas"
			fileLine := "[FILE \"shapes.nas\"]\n"
			format := "[FORMAT \"WCOFF\"]\n"
			var src, flat string
			mk := func(before, after string) {
				rest := fileLine + glob + "[SECTION .text]\n" + text.String()
				src = before + format + after + rest
				flat = before + after + rest
			}
			switch hd {
			case "format_bits32":
				mk("", "[INSTRSET \"i486p\"]\n[BITS 32]\n")
			case "format_only":
				mk("", "[INSTRSET \"i486p\"]\n")
			case "bits16_format":
				mk("[BITS 16]\n", "[INSTRSET \"i486p\"]\n")
			case "format_bits16":
				mk("", "[BITS 16]\n")
			case "bits32_format":
				mk("[BITS 32]\n", "")
			case "format_bits32_instrset_last":
				mk("", "[BITS 32]\n[INSTRSET \"i486p\"]\n")
			}
			cc.src, cc.flat = src, flat
			return &core.Case{
				Key:       fmt.Sprintf("head=%s tail=%s globals=%v long_branch=%v", hd, tl, allGlobal, relax),
				Feat:      feat("body", "shapes", "head", hd, "tail", tl, "globals", fmt.Sprint(allGlobal), "long_branch", fmt.Sprint(relax)),
				FreshRefs: false, Srcs: []string{cc.src, cc.flat},
				Judge: func(rs []*core.Result) core.Verdict { return judgeCoff(cc, rs, wantC08, wantC09) },
			}
		},
	}
}
