package props

import (
	"bytes"
	"fmt"
	"sync"
	"time"

	"verifengine/core"
)

// C05 through the real command: string operands byte for byte. The in-process worker hands the source
// bytes straight to the parser; the command first decodes the file (cmd/gosk readAssets), so what a
// string literal emits can only be observed there.

type cliStr struct {
	class string // ascii | sjis2 | kana1 | utf8_2
	raw   string // bytes between the quotes, as they stand in the source file
	// transcoded: what the command emits if it decodes the file as Shift_JIS and emits the decoded text as UTF-8
	// (hard-coded for the few characters used; "" for ASCII, where both coincide)
	transcoded string
}

var c05CLIStrings = []cliStr{
	{"ascii", "hello", ""}, {"ascii", "a;b#c,d", ""}, {"ascii", "[x] (y) 'z' + - * /", ""}, {"ascii", " lead and trail ", ""}, {"ascii", "~|{}^_`@", ""}, {"ascii", "0x10,10", ""},
	{"sjis2", "\x83\x41", "ア"},          // KATAKANA A
	{"sjis2", "\x83\x5c", "ソ"},          // KATAKANA SO: trail byte 0x5C
	{"sjis2", "\x93\xfa\x96\x7b", "日本"}, // NIHON
	{"sjis2", "\x95\x5c\x8c\xea", "表語"}, // trail byte 0x5C inside
	{"sjis2", "ab\x83\x41cd", "abアcd"},
	{"kana1", "\xb1", "ｱ"}, {"kana1", "\xb1\xb2\xb3", "ｱｲｳ"}, {"kana1", "x\xdfy", "xﾟy"},
	{"utf8_2", "caf\xc3\xa9", "cafﾃｩ"}, {"utf8_2", "\xc2\xa1", "ﾂ｡"}, {"utf8_2", "\xc3\xb1o", "ﾃｱo"},
}

func c05CLI(r *core.Run, tier string) {
	t0 := time.Now()
	p := r.Cfg.Pool
	type shape struct {
		name string
		mk   func(lit string) (src string, pre, post []byte)
	}
	shapes := []shape{
		{"alone", func(l string) (string, []byte, []byte) { return "\tDB \"" + l + "\"\n", nil, nil }},
		{"with_numbers", func(l string) (string, []byte, []byte) {
			return "\tDB 0x11,\"" + l + "\",0x0a,0\n", []byte{0x11}, []byte{0x0a, 0}
		}},
		{"between_statements", func(l string) (string, []byte, []byte) {
			return "\tMOV AL,1\nmsg:\n\tDB \"" + l + "\"\n\tDB 0\n\tHLT\n", []byte{0xb0, 0x01}, []byte{0, 0xf4}
		}},
		{"commented", func(l string) (string, []byte, []byte) {
			return "\tDB \"" + l + "\" ; " + l + "\n\tDB 2\n", nil, []byte{2}
		}},
	}
	var wg sync.WaitGroup
	var mu sync.Mutex
	var spawns, nontriv int64
	sem := make(chan struct{}, p.N)
	for si, s := range c05CLIStrings {
		for _, sh := range shapes {
			wg.Add(1)
			sem <- struct{}{}
			go func(si int, s cliStr, sh shape) {
				defer wg.Done()
				defer func() { <-sem }()
				src, pre, post := sh.mk(s.raw)
				want := append(append(append([]byte{}, pre...), []byte(s.raw)...), post...)
				got := p.CLI(src, nil, false)
				mu.Lock()
				spawns++
				nontriv++
				mu.Unlock()
				r.AddNT(fmt.Sprintf("cli_string|%d|%s", si, sh.name))
				if got.ExitCode == 0 && bytes.Equal(got.Out, want) {
					return
				}
				dev := "other"
				if got.ExitCode != 0 {
					dev = fmt.Sprintf("exit:%d", got.ExitCode)
				} else if s.transcoded != "" && bytes.Equal(got.Out, append(append(append([]byte{}, pre...), []byte(s.transcoded)...), post...)) {
					dev = "decoded_as_shift_jis_emitted_as_utf8"
				}
				r.AddFail("cli_strings", fmt.Sprintf("%s|%s|%q", s.class, sh.name, s.raw),
					map[string]string{"class": s.class, "shape": sh.name}, []string{src},
					core.Fail{Facet: "cli_string", Dev: dev, Detail: fmt.Sprintf("the command emits %x (exit %d); the string stands as %x in the source file, expected output %x", got.Out, got.ExitCode, []byte(s.raw), want)})
			}(si, s, sh)
		}
	}
	wg.Wait()
	r.AddSample(map[string]any{"cli_string": "DB \"caf\\xc3\\xa9\" through the real command"})
	r.AddCustom("cli_strings", fmt.Sprintf("%d string literals (ASCII incl. ; # , brackets and quotes of the other kind; Shift_JIS double-byte incl. trail byte 0x5C; half-width kana; 2-byte UTF-8) x %d statement shapes, each written to a file and assembled by the REAL command: the output must contain the literal's bytes exactly as they stand in the file", len(c05CLIStrings), len(shapes)),
		map[string]any{"strings": len(c05CLIStrings), "shapes": len(shapes)}, spawns+1, spawns, spawns, nontriv, 1, true, time.Since(t0).Seconds())
}
