package props

import (
	"fmt"

	"verifengine/core"
	"verifengine/x86ref"
)

// modeContextScenario (C01 and C02): "decoded ... under the BITS mode in force". Single-statement programs put the
// statement directly behind its [BITS n] line; here the same statements stand in files that switch mode elsewhere:
// a switch AFTER the statement, two directives in a row in front of it, a switch away and back, no directive at
// all in front of 16-bit code that is followed by [BITS 32], and directives separated only by a label and an EQU.
func modeContextScenario(name string) *core.Scenario {
	type mem struct {
		text string
		spec x86ref.MemSpec
	}
	mems := func(mode int) []mem {
		ms := []mem{
			{"[0x1234]", x86ref.MemSpec{Disp: 0x1234, AddrSize: mode, Abs: true}},
			{"[EBX]", x86ref.MemSpec{Base: "EBX", AddrSize: 32}},
			{"[EBX+ECX*4+0x200]", x86ref.MemSpec{Base: "EBX", Index: "ECX", Scale: 4, Disp: 0x200, AddrSize: 32}},
		}
		if mode == 16 {
			ms = append(ms, mem{"[BX]", x86ref.MemSpec{Base: "BX", AddrSize: 16}}, mem{"[SI+4]", x86ref.MemSpec{Base: "SI", Disp: 4, AddrSize: 16}})
		} else {
			ms = append(ms, mem{"[BX+SI]", x86ref.MemSpec{Base: "BX", Index: "SI", Scale: 1, AddrSize: 16}}, mem{"[ESP+8]", x86ref.MemSpec{Base: "ESP", Disp: 8, AddrSize: 32}})
		}
		return ms
	}
	regs := map[int][]string{8: {"AL", "CL"}, 16: {"AX", "DX"}, 32: {"EAX", "EBX"}}
	ops := []string{"MOV", "ADD", "CMP"}
	imms := []int64{1, 0x7f, 0x80, 0x1234}
	contexts := []string{"switch_after", "two_directives_in_front", "away_and_back", "no_directive_then_switch", "label_and_equ_between_directives", "switch_after_data"}
	return &core.Scenario{
		Name: name, Bound: -1,
		Rule:   "{MOV,ADD,CMP} x {reg<-mem, mem<-reg, reg<-imm} x 3 widths x 5 memory operands / 4 immediates, the statement (located by sentinels) standing in a file that changes mode elsewhere: 6 contexts x the statement's mode; it must decode to its source meaning under ITS mode",
		Bounds: map[string]any{"ops": ops, "contexts": contexts, "immediates": imms},
		Build: func(c *core.Chooser) *core.Case {
			mode := []int{16, 32}[c.Pick("mode", 2)]
			other := 48 - mode
			ctx := contexts[c.Pick("context", len(contexts))]
			if ctx == "no_directive_then_switch" && mode != 16 {
				return nil
			}
			op := ops[c.Pick("op", len(ops))]
			w := []int{8, 16, 32}[c.Pick("w", 3)]
			reg := regs[w][c.Pick("reg", 2)]
			form := c.Pick("form", 3)
			var stmt string
			var want x86ref.Want
			switch form {
			case 0, 1:
				ms := mems(mode)
				m := ms[c.Pick("mem", len(ms))]
				mb := memShape{m.text, m.spec}
				if form == 1 {
					stmt = fmt.Sprintf("%s %s,%s", op, m.text, reg)
					want = x86ref.Want{Op: op, OpSize: w, Ops: []x86ref.WantOp{wmem(mb, w), wreg(reg)}}
				} else {
					stmt = fmt.Sprintf("%s %s,%s", op, reg, m.text)
					want = x86ref.Want{Op: op, OpSize: w, Ops: []x86ref.WantOp{wreg(reg), wmem(mb, w)}}
				}
			default:
				v := imms[c.Pick("imm", len(imms))]
				if w == 8 && v > 0xff {
					return nil
				}
				stmt = fmt.Sprintf("%s %s,0x%x", op, reg, v)
				want = x86ref.Want{Op: op, OpSize: w, Ops: []x86ref.WantOp{wreg(reg), wimm(v, w)}}
			}
			core0 := sentinelLine(0) + "\t" + stmt + "\n" + sentinelLine(1)
			// the statement as the FIRST statement behind the directive(s): the leading sentinel stands in front of them
			s0, tail := sentinelLine(0), "\t"+stmt+"\n"+sentinelLine(1)
			hdr := ""
			if mode == 32 {
				hdr = "[BITS 32]\n"
			}
			otherStmt := "\tMOV AX,1\n\tMOV EBX,[ESI+4]\n"
			var src string
			switch ctx {
			case "switch_after":
				src = hdr + core0 + fmt.Sprintf("[BITS %d]\n", other) + otherStmt
			case "two_directives_in_front":
				src = s0 + fmt.Sprintf("[BITS %d]\n[BITS %d]\n", other, mode) + tail
			case "away_and_back":
				src = fmt.Sprintf("[BITS %d]\n", other) + otherStmt + s0 + fmt.Sprintf("[BITS %d]\n", mode) + tail + fmt.Sprintf("[BITS %d]\n", other) + otherStmt
			case "no_directive_then_switch":
				src = "\tNOP\n" + core0 + "[BITS 32]\n" + otherStmt
			case "label_and_equ_between_directives":
				src = s0 + fmt.Sprintf("[BITS %d]\nhere:\nK EQU 1\n[BITS %d]\n", other, mode) + tail + "\tDB K\n"
			case "switch_after_data":
				src = hdr + "\tDB 1\n\tDB 2\n\tDW 3\n\tDW 4\n" + core0 + "\tDB 5\n\tDB 6\n" + fmt.Sprintf("[BITS %d]\n", other) + otherStmt
			}
			return &core.Case{
				Key:  fmt.Sprintf("BITS %d|%s|%s", mode, ctx, stmt),
				Feat: feat("mode", fmt.Sprint(mode), "context", ctx, "op", op, "w", fmt.Sprint(w), "form", fmt.Sprint(form)),
				Srcs: []string{src},
				Judge: func(rs []*core.Result) core.Verdict {
					v := core.Verdict{}
					// the only log line every one of these programs prints is the constant warning of [BITS n]; a refusal of
					// the statement itself shows as an error-level line
					if core.ReportsError(rs[0], nil) {
						v.Outcome = "diagnosed"
						return v
					}
					region, ok := between(rs[0].Out, 0, 1)
					if !ok {
						v.Outcome = "layout"
						v.Fails = []core.Fail{{Facet: "layout", Dev: "sentinels_lost", Detail: hexs(rs[0].Out)}}
						return v
					}
					v.Outcome = "ok"
					v.Nontrivial = len(region) > 0
					if len(region) == 0 {
						v.Fails = []core.Fail{{Facet: "dropped_silently", Dev: "no_bytes", Detail: "nothing emitted between the sentinels"}}
						return v
					}
					diffs, _ := x86ref.Compare(region, mode, want)
					for _, d := range diffs {
						v.Fails = append(v.Fails, core.Fail{Facet: d.Facet, Dev: d.Dev, Detail: d.Info})
					}
					return v
				},
			}
		},
	}
}
