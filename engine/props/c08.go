package props

import (
	"bytes"
	"debug/pe"
	"fmt"
	"sort"
	"strings"
	"time"

	"verifengine/core"
)

// C08 — WCOFF output is a structurally valid COFF object.
// C09 — COFF carries the same code and the right symbols.

var coffNamings = [][4]string{
	{"f1", "f2", "f3", "f4"},
	{"a234567", "b2345678", "c23456789", "d2345678901234567"},
	{"e23456789012345678", "f234567890123456789", "g234567890123456789012345678901234567890", "h"},
	{"prefix78a", "prefix78b", "prefix78", "prefix7"},
	{"i23456789", "j23456789", "k23456789", "l23456789"},
	{"longname_abc", "longname_ab", "longname_a", "longname_"},
	{"m234567890123456789012345678901234567890", "m23456789012345678901234567890123456789X", "n2345678", "o23456789"},
}

var coffFileNames = []struct {
	has  bool
	name string
}{{false, ""}, {true, ""}, {true, "a"}, {true, "seventeen_chars.n"}, {true, "eighteen_chars.nas"}, {true, "nineteen_chars_.nas"}, {true, "a_file_name_of_exactly_forty_chars_.nas"}}

var coffBodies = []string{"empty", "one", "routines", "large", "strings", "sections"}

// ordered subsets of {0,1,2,3}
func orderedSubsets() [][]int {
	var out [][]int
	var rec func(cur []int, used int)
	rec = func(cur []int, used int) {
		out = append(out, append([]int(nil), cur...))
		for i := 0; i < 4; i++ {
			if used&(1<<uint(i)) == 0 {
				rec(append(cur, i), used|1<<uint(i))
			}
		}
	}
	rec(nil, 0)
	return out
}

type coffCase struct {
	src, flat   string
	globals     []string // names declared GLOBAL in declaration order (with duplicates)
	labelNames  []string // labels defined, in address order
	fileHas     bool
	fileName    string
	body        string
	labelSentry map[string]int
}

func buildCoffCase(body string, names [4]string, subset []int, placement int, extras int, fileIdx int) coffCase {
	cc := coffCase{body: body, labelSentry: map[string]int{}}
	var decl []string
	for _, i := range subset {
		decl = append(decl, names[i])
	}
	if extras == 1 || extras == 3 {
		decl = append(decl, "undefined_name")
	}
	if (extras == 2 || extras == 3) && len(subset) > 0 {
		decl = append(decl, names[subset[0]])
	}
	cc.globals = decl
	globalStmts := func(d []string) string {
		if len(d) == 0 {
			return ""
		}
		return "\tGLOBAL " + strings.Join(d, ", ") + "\n"
	}
	var pre, post string
	switch placement {
	case 0:
		pre = globalStmts(decl)
	case 1:
		post = globalStmts(decl)
	case 2: // one GLOBAL statement per name, half before, half after
		for i, d := range decl {
			if i%2 == 0 {
				pre += globalStmts([]string{d})
			} else {
				post += globalStmts([]string{d})
			}
		}
	}
	routines := []string{"\tMOV EAX,1\n\tRET\n", "\tNOP\n\tRET\n", "\tMOV ECX,[ESP+4]\n\tRET\n", "\tHLT\n"}
	var text strings.Builder
	switch body {
	case "empty":
	case "one":
		text.WriteString(names[0] + ":\n" + sentinelLine(10) + "\tRET\n")
		cc.labelNames = []string{names[0]}
		cc.labelSentry[names[0]] = 10
	default:
		for i := 0; i < 4; i++ {
			if body == "large" && i == 2 {
				text.WriteString("\tRESB 70000\n")
			}
			if body == "sections" && i == 1 {
				text.WriteString("[SECTION .data]\n\tDD 0x11223344, 2\n") // everything still goes into the one .text image
			}
			if body == "sections" && i == 3 {
				text.WriteString("[SECTION .text]\n\tNOP\n[SECTION .bss]\n")
			}
			if body == "strings" && (i == 1 || i == 3) {
				text.WriteString("\tDB \"caf\u00e9 \u65e5\u672c\", 0x0a, 0\n\tDB \"ascii; text, with # separators\",0\n")
			}
			text.WriteString(names[i] + ":\n" + sentinelLine(10+i) + routines[i])
			cc.labelNames = append(cc.labelNames, names[i])
			cc.labelSentry[names[i]] = 10 + i
		}
	}
	fn := coffFileNames[fileIdx]
	cc.fileHas, cc.fileName = fn.has, fn.name
	fileLine := ""
	if fn.has {
		fileLine = fmt.Sprintf("[FILE \"%s\"]\n", fn.name)
	}
	head := "[INSTRSET \"i486p\"]\n[BITS 32]\n" + fileLine
	rest := pre + "[SECTION .text]\n" + text.String() + post
	cc.src = "[FORMAT \"WCOFF\"]\n" + head + rest
	cc.flat = head + rest
	return cc
}

func judgeCoff(cc coffCase, rs []*core.Result, wantC08, wantC09 bool) core.Verdict {
	v := core.Verdict{}
	r, rf := rs[0], rs[1]
	if core.HardFailure(r) || core.HardFailure(rf) {
		v.Outcome = "failed_run"
		v.Fails = []core.Fail{{Facet: "run", Dev: "hard_failure", Detail: errSummary(r) + " // " + errSummary(rf)}}
		return v
	}
	v.Outcome = "object_written"
	v.Nontrivial = true
	b := r.Out
	f := parseCOFF(b)
	add := func(facet, dev, detail string) {
		v.Fails = append(v.Fails, core.Fail{Facet: facet, Dev: dev, Detail: detail})
	}
	if wantC08 {
		for _, p := range f.Problems {
			kind := p
			if i := strings.IndexAny(p, "0123456789(["); i > 0 {
				kind = strings.TrimSpace(p[:i])
			}
			add("structure", kind, p)
		}
		if f.Machine != 0x14c {
			add("structure", "machine", fmt.Sprintf("machine %#x", f.Machine))
		}
		if f.NumSections != 3 || len(f.Sections) != 3 || f.Sections[0].Name != ".text" || f.Sections[1].Name != ".data" || f.Sections[2].Name != ".bss" {
			add("structure", "section_table", fmt.Sprintf("%d sections %+v", f.NumSections, f.Sections))
		}
		if f.SizeOfOptionalHdr != 0 {
			add("structure", "optional_header", "")
		}
		// symbol count must equal the number of 18-byte records incl. aux
		recs := 0
		for _, s := range f.Symbols {
			recs += 1 + len(s.Aux)
		}
		if uint32(recs) != f.NumberOfSymbols {
			add("structure", "symbol_count", fmt.Sprintf("header says %d, records parsed %d", f.NumberOfSymbols, recs))
		}
		// external symbols are looked up by name: two records that read back with the same name make the object
		// ambiguous (a string-table entry shared by two different names shows up here), and every long-name offset
		// must point at the beginning of a string (offset 4 or just behind a NUL)
		seenExt := map[string]int{}
		for _, sy := range f.Symbols {
			if sy.Class == 2 {
				seenExt[sy.Name]++
				if seenExt[sy.Name] == 2 {
					add("structure", "duplicate_external_name", fmt.Sprintf("two external symbol records read back as %q", sy.Name))
				}
			}
			if sy.LongName && sy.StrOffset > 4 && int(sy.StrOffset-1) < len(f.StringTable) && f.StringTable[sy.StrOffset-1] != 0 {
				add("structure", "name_offset_inside_a_string", fmt.Sprintf("symbol %q: string-table offset %d does not start a string", sy.Name, sy.StrOffset))
			}
		}
		if len(f.Problems) == 0 {
			if pf, err := pe.NewFile(bytes.NewReader(b)); err != nil {
				add("independent_reader", "debug_pe_rejects", err.Error())
			} else {
				if len(pf.Sections) != 3 || int(pf.FileHeader.NumberOfSymbols) != recs {
					add("independent_reader", "debug_pe_disagrees", fmt.Sprintf("debug/pe: %d sections, %d symbols", len(pf.Sections), pf.FileHeader.NumberOfSymbols))
				}
				pf.Close()
			}
		}
	}
	if wantC09 && len(f.Problems) > 0 {
		// an object that cannot be read back carries neither the code nor the symbols
		add("text", "object_unreadable", strings.Join(f.Problems, "; "))
	}
	if wantC09 && len(f.Problems) == 0 && len(f.Sections) >= 1 {
		text := f.sectionData(b, 0)
		if !bytes.Equal(text, rf.Out) {
			add("text", "differs_from_flat_binary", fmt.Sprintf(".text %d bytes, flat %d bytes", len(text), len(rf.Out)))
		}
		// expected user symbols
		defined := map[string]bool{}
		for _, n := range cc.labelNames {
			defined[n] = true
		}
		seen := map[string]bool{}
		type exp struct {
			name string
			off  int
		}
		var expDef []exp
		var expUndef []string
		for _, g := range cc.globals {
			if seen[g] {
				continue
			}
			seen[g] = true
			if defined[g] {
				off := findSentinel(rf.Out, cc.labelSentry[g])
				if cc.labelSentry[g] == -1 {
					off = len(rf.Out) // a label with nothing behind it: located at the end of the flat binary
				}
				expDef = append(expDef, exp{g, off})
			} else {
				expUndef = append(expUndef, g)
			}
		}
		sort.SliceStable(expDef, func(i, j int) bool { return expDef[i].off < expDef[j].off })
		var user []coffSymbol
		for _, s := range f.Symbols {
			if s.Class == 2 {
				user = append(user, s)
			}
		}
		count := map[string]int{}
		for _, s := range user {
			count[s.Name]++
		}
		for _, e := range expDef {
			switch {
			case count[e.name] == 0:
				add("symbols", "global_missing", e.name)
			case count[e.name] > 1:
				add("symbols", fmt.Sprintf("global_repeated:%d", count[e.name]), e.name)
			}
		}
		for _, u := range expUndef {
			if count[u] > 1 {
				add("symbols", fmt.Sprintf("undefined_repeated:%d", count[u]), u)
			}
		}
		for _, s := range user {
			if !seen[s.Name] {
				add("symbols", "unexpected_symbol", s.Name)
			}
		}
		// values / section / order (on the de-duplicated sequence)
		var defSeq []coffSymbol
		sawUndef := false
		for _, s := range user {
			if s.Section == 0 {
				sawUndef = true
				continue
			}
			if sawUndef {
				add("symbols", "defined_after_undefined", s.Name)
			}
			defSeq = append(defSeq, s)
		}
		for i := 1; i < len(defSeq); i++ {
			if defSeq[i].Value < defSeq[i-1].Value {
				add("symbols", "not_ordered_by_address", defSeq[i].Name)
				break
			}
		}
		for _, e := range expDef {
			for _, s := range user {
				if s.Name == e.name {
					if s.Section != 1 {
						add("symbols", fmt.Sprintf("section:%d", s.Section), e.name)
					}
					if e.off >= 0 && int(s.Value) != e.off {
						add("symbols", "value", fmt.Sprintf("%s: value %d, label really at %d", e.name, s.Value, e.off))
					}
					if s.NumAux != 0 || s.Type != 0 {
						add("symbols", "type_or_aux", e.name)
					}
					break
				}
			}
		}
		for _, u := range expUndef {
			for _, s := range user {
				if s.Name == u && (s.Section != 0 || s.Value != 0) {
					add("symbols", "undefined_not_undefined", u)
				}
			}
		}
		// .file record
		if len(f.Symbols) == 0 || f.Symbols[0].Name != ".file" || f.Symbols[0].Class != 103 || len(f.Symbols[0].Aux) < 1 {
			add("file_record", "missing", "")
		} else {
			var aux []byte
			for _, a := range f.Symbols[0].Aux {
				aux = append(aux, a...)
			}
			got := strings.TrimRight(string(aux), "\x00")
			if got != cc.fileName {
				dev := "name_differs"
				if strings.HasPrefix(cc.fileName, got) && len(cc.fileName) > 18 {
					dev = "truncated_to_18"
				}
				add("file_record", dev, fmt.Sprintf("[FILE %q] recorded as %q", cc.fileName, got))
			}
		}
		// section symbols
		for i, n := range []string{".text", ".data", ".bss"} {
			if len(f.Symbols) <= 1+i || f.Symbols[1+i].Name != n || f.Symbols[1+i].Section != int16(i+1) || f.Symbols[1+i].Class != 3 {
				add("symbols", "section_symbol", n)
			}
		}
		if len(f.Symbols) > 1 && len(f.Symbols[1].Aux) == 1 {
			if l := rdle(f.Symbols[1].Aux[0][:4]); l != int64(len(rf.Out)) {
				add("symbols", "text_aux_length", fmt.Sprintf("%d vs %d", l, len(rf.Out)))
			}
		}
	}
	return v
}

func coffScenario(tier string, wantC08, wantC09 bool) *core.Scenario {
	subsets := orderedSubsets()
	namings := []int{0, 1, 2, 3, 4, 5, 6}
	files := []int{0, 1, 2, 3, 4, 5, 6}
	bodies := coffBodies
	if tier != "thorough" {
		namings = []int{1, 3, 5}
		files = []int{0, 4, 5}
		bodies = []string{"routines", "large", "empty", "one", "strings", "sections"}
	}
	return &core.Scenario{
		Name: "coff_programs", Bound: -1,
		Rule:   "body {empty, one instruction, 4 labelled routines, .text > 64 KiB} x every ordered subset of the 4 labels declared GLOBAL (65) x placement {before, after, split into single statements around the code} x extras {none, an undefined name, a duplicate, both} x 6 naming patterns (lengths 1..40, exactly 8/9, shared 8-byte prefixes) x [FILE] {absent, empty, 1, 17, 18, 19, 40 chars}; non-trivial = an object file was written; distinct by case",
		Bounds: map[string]any{"bodies": bodies, "ordered_subsets": len(subsets), "placements": 3, "extras": 4, "namings": len(namings), "file_names": len(files)},
		Build: func(c *core.Chooser) *core.Case {
			body := bodies[c.Pick("body", len(bodies))]
			ni := namings[c.Pick("naming", len(namings))]
			fi := files[c.Pick("file", len(files))]
			sub := subsets[c.Pick("subset", len(subsets))]
			pl := c.Pick("placement", 3)
			ex := c.Pick("extras", 4)
			if tier != "thorough" && body != "routines" && (pl != 0 || ex != 0 || len(sub) > 2) {
				return nil // quick tier: the >64 KiB body only with the simplest GLOBAL arrangements
			}
			cc := buildCoffCase(body, coffNamings[ni], sub, pl, ex, fi)
			return &core.Case{
				Key: fmt.Sprintf("body=%s naming=%d file=%d subset=%v placement=%d extras=%d", body, ni, fi, sub, pl, ex),
				Feat: feat("body", body, "naming", fmt.Sprint(ni), "file", fmt.Sprint(fi), "filelen", fmt.Sprint(len(cc.fileName)), "nsub", fmt.Sprint(len(sub)),
					"placement", fmt.Sprint(pl), "extras", fmt.Sprint(ex), "dup", fmt.Sprint((ex == 2 || ex == 3) && len(sub) > 0)),
				Srcs:  []string{cc.src, cc.flat},
				Judge: func(rs []*core.Result) core.Verdict { return judgeCoff(cc, rs, wantC08, wantC09) },
			}
		},
	}
}

// c08Leftover: objects written over an existing, longer file must still be structurally valid
// (in particular the string table must end at the end of the file).
func c08Leftover(r *core.Run, tier string) {
	t0 := time.Now()
	subsets := orderedSubsets()
	var n, bad int64
	live := r.Cfg.Pool.NewLive()
	defer live.Close()
	for _, body := range []string{"empty", "one", "routines"} {
		for ni := range coffNamings {
			for _, si := range []int{0, 1, 5, 20, 64} {
				cc := buildCoffCase(body, coffNamings[ni], subsets[si], 0, 0, 4)
				for _, pre := range [][]byte{bytes.Repeat([]byte{0xEE}, 70000), bytes.Repeat([]byte{0x00}, 3000)} {
					res, ok := live.Do(core.Op{Src: []byte(cc.src), HasPre: true, Pre: pre})
					n++
					if !ok {
						live = r.Cfg.Pool.NewLive()
						continue
					}
					v := judgeCoff(cc, []*core.Result{res, {Out: nil}}, true, false)
					for _, f := range v.Fails {
						if f.Facet == "run" {
							continue
						}
						bad++
						r.AddFail("leftover_destination", fmt.Sprintf("body=%s naming=%d subset=%v over %d old bytes", body, ni, subsets[si], len(pre)),
							map[string]string{"body": body, "naming": fmt.Sprint(ni)}, []string{cc.src}, f)
					}
					r.AddNT(fmt.Sprintf("leftover|%s|%d|%d|%d", body, ni, si, len(pre)))
				}
			}
		}
	}
	r.AddSample(map[string]any{"leftover": "a WCOFF object written over a 70000-byte file of 0xEE"})
	r.AddCustom("leftover_destination", "3 bodies x 7 namings x 5 GLOBAL subsets, each object written over an existing longer file (70000 x 0xEE, 3000 x 0x00): the object must still satisfy every structural rule (string table ends at end of file)",
		nil, n+1, n, n, n, 1, true, time.Since(t0).Seconds())
}

func init() {
	register(&Property{
		ID:     "C08",
		Custom: c08Leftover,
		Scenarios: func(tier string) []*core.Scenario {
			return []*core.Scenario{coffScenario(tier, true, false), coffShapesScenario(true, false)}
		},
		Assumptions: []string{
			"structure is judged by an independent strict COFF reader written from the PE/COFF specification (all offsets/counts bounds-checked) and additionally by Go's debug/pe",
			"the .text PointerToRelocations field is allowed to be non-zero while NumberOfRelocations is 0 (NASK does the same)",
		},
	})
	register(&Property{
		ID: "C09",
		Scenarios: func(tier string) []*core.Scenario {
			return []*core.Scenario{coffScenario(tier, false, true), coffShapesScenario(false, true)}
		},
		Assumptions: []string{
			"the flat binary of the same source without the [FORMAT] line is the reference for .text; label offsets are located in it by sentinels",
			"a [FILE] name longer than 18 bytes must be recoverable (consecutive aux records); plain truncation is reported",
		},
	})
}
