package props

import (
	"fmt"
	"strings"

	"verifengine/core"
)

// C05, scenario second_org: "ORG ... emit nothing, and the location counter advances by exactly the number of
// bytes emitted". An ORG that is not the first statement sets the location counter and still emits nothing:
// no padding up to the new address, nothing removed; `$`, ALIGNB and labels behind it follow the new counter.
func c05SecondOrg() *core.Scenario {
	type st struct {
		text string
		emit func(addr, origin int64) []byte
	}
	zeros := func(n int64) []byte { return make([]byte, n) }
	alpha := []st{
		{"", func(int64, int64) []byte { return nil }},
		{"DB 1,2", func(int64, int64) []byte { return []byte{1, 2} }},
		{"DW $", func(a, _ int64) []byte { return le(a, 2) }},
		{"DD back", func(_, o int64) []byte { return le(o, 4) }},
		{"RESB 3", func(int64, int64) []byte { return zeros(3) }},
		{"ALIGNB 8", func(a, _ int64) []byte { return zeros((8 - a%8) % 8) }},
		{"here:\n\tDW here", func(a, _ int64) []byte { return le(a, 2) }},
	}
	deltas := []int64{0x200, 0x13, 4, 0, -0x40}
	return &core.Scenario{
		Name: "second_org", Bound: -1,
		Rule:   "ORG o1 / sentinel / A / ORG o1+delta / B / sentinel for all A, B over 7 directive statements (none, DB, DW $, DD label, RESB, ALIGNB, label+DW) x delta in {+0x200, +0x13, +4, 0, -0x40} x o1 in {0x100, 0x7c00}: the second ORG emits nothing (no padding), and B is laid out at the new counter",
		Bounds: map[string]any{"statements": len(alpha), "deltas": deltas, "origins": []string{"0x100", "0x7c00"}},
		Build: func(c *core.Chooser) *core.Case {
			o1 := []int64{0x100, 0x7c00}[c.Pick("org", 2)]
			a := alpha[c.Pick("a", len(alpha))]
			b := alpha[c.Pick("b", len(alpha))]
			d := deltas[c.Pick("delta", len(deltas))]
			o2 := o1 + d
			var want []byte
			addr := o1 + 8
			ba := a.emit(addr, o1)
			want = append(want, ba...)
			bb := b.emit(o2, o1)
			want = append(want, bb...)
			line := func(t string) string {
				if t == "" {
					return ""
				}
				if strings.Contains(t, ":\n") {
					return strings.Replace(t, "here", "here", 1) + "\n"
				}
				return "\t" + t + "\n"
			}
			bt := b.text
			if strings.HasPrefix(a.text, "here:") && strings.HasPrefix(b.text, "here:") {
				bt = strings.ReplaceAll(b.text, "here", "there")
			}
			src := fmt.Sprintf("\tORG 0x%x\nback:\n", o1) + sentinelLine(0) + line(a.text) + fmt.Sprintf("\tORG 0x%x\n", o2) + line(bt) + sentinelLine(1)
			wantLOC := o2 + int64(len(bb)) + 8
			return &core.Case{
				Key:  fmt.Sprintf("ORG 0x%x|%s|ORG 0x%x|%s", o1, strings.ReplaceAll(a.text, "\n\t", " "), o2, strings.ReplaceAll(bt, "\n\t", " ")),
				Feat: feat("dir", "second_org", "a", a.text, "b", b.text, "delta", fmt.Sprint(d)),
				Srcs: []string{src},
				Judge: func(rs []*core.Result) core.Verdict {
					r := *rs[0]
					loc := r.LOC
					r.ViaCLI = true // the generic LOC == origin + length rule does not hold behind a second ORG; judged below
					v := c05JudgeRegion(&r, want, o1, true)
					if v.Outcome == "assembled" && !rs[0].ViaCLI && !rs[0].Died && int64(loc) != wantLOC {
						v.Fails = append(v.Fails, core.Fail{Facet: "loc", Dev: fmt.Sprintf("loc:%+d", clampDiff(int64(loc)-wantLOC)), Detail: fmt.Sprintf("pass-1 LOC=%#x, expected %#x (second origin %#x + %d bytes + sentinel)", loc, wantLOC, o2, len(bb))})
					}
					return v
				},
			}
		},
	}
}
