package props

import (
	"fmt"
	"strings"

	"verifengine/core"
)

// C03, scenario labels_across_sections: "[SECTION x]" directives emit nothing and gosk keeps ONE image (.text) for
// all of them, so the value of a label or of `$` behind a section switch is still the number of bytes emitted
// before it - in flat binaries and in WCOFF objects.
func c03Sections() *core.Scenario {
	switches := []string{"[SECTION .data]", "[SECTION .bss]", "[SECTION .text]", "[SECTION .data]\n[SECTION .text]", "[SECTION .mydata]"}
	befores := []string{"", "\tDD 0x11223344\n", "\tMOV EAX,1\n\tRET\n", "\tRESB 12\n"}
	uses := []string{"DD lab", "DD $", "MOV EAX,lab", "MOV EAX,[lab]", "DW lab"}
	return &core.Scenario{
		Name: "labels_across_sections", Bound: -1,
		Rule:   "{flat binary, WCOFF object} x first section directive present/absent x 4 kinds of bytes emitted before x 5 section switches x 5 uses of a label / `$` defined behind the switch: the embedded value must be the sentinel-located offset in the image; non-trivial = assembled",
		Bounds: map[string]any{"switches": switches, "before": befores, "uses": uses},
		Build: func(c *core.Chooser) *core.Case {
			coff := c.Bool("wcoff")
			first := c.Bool("first_section_directive")
			bf := befores[c.Pick("before", len(befores))]
			sw := switches[c.Pick("switch", len(switches))]
			use := uses[c.Pick("use", len(uses))]
			hdr := "[BITS 32]\n"
			if coff {
				hdr = "[FORMAT \"WCOFF\"]\n[BITS 32]\n[FILE \"s.nas\"]\n\tGLOBAL lab\n"
			}
			if first {
				hdr += "[SECTION .text]\n"
			}
			src := hdr + "\tNOP\n" + bf + sw + "\n" + "\tDB 7\nlab:\n" + sentinelLine(0) + sentinelLine(1) + "\t" + use + "\n" + sentinelLine(2)
			return &core.Case{
				Key:  fmt.Sprintf("coff=%v|first=%v|%s|%s|%s", coff, first, strings.ReplaceAll(strings.TrimSpace(bf), "\n\t", " ; "), strings.ReplaceAll(sw, "\n", " "), use),
				Feat: feat("coff", fmt.Sprint(coff), "switch", sw, "use", use),
				Srcs: []string{src},
				Judge: func(rs []*core.Result) core.Verdict {
					r := rs[0]
					v := core.Verdict{}
					if core.HardFailure(r) || core.ReportsError(r, nil) {
						v.Outcome = "diagnosed"
						return v
					}
					img := r.Out
					if coff {
						f := parseCOFF(r.Out)
						if len(f.Problems) > 0 || len(f.Sections) < 1 {
							v.Outcome = "bad_object"
							v.Fails = []core.Fail{{Facet: "layout", Dev: "object_unreadable", Detail: strings.Join(f.Problems, "; ")}}
							return v
						}
						img = f.sectionData(r.Out, 0)
						for _, sy := range f.Symbols {
							if sy.Name == "lab" && sy.Class == 2 {
								if s0 := findSentinel(img, 0); s0 >= 0 && int(sy.Value) != s0 {
									v.Fails = append(v.Fails, core.Fail{Facet: "label_value", Dev: fmt.Sprintf("symbol:%+d", clampDiff(int64(sy.Value)-int64(s0))), Detail: fmt.Sprintf("COFF symbol lab = %d, the label is at offset %d of .text", sy.Value, s0)})
								}
							}
						}
					}
					s0, s1, s2 := findSentinel(img, 0), findSentinel(img, 1), findSentinel(img, 2)
					if s0 < 0 || s1 < 0 || s2 < 0 {
						v.Outcome = "no_sentinels"
						v.Fails = append(v.Fails, core.Fail{Facet: "layout", Dev: "sentinels_lost", Detail: hexs(img[:min(len(img), 64)])})
						return v
					}
					v.Outcome = "assembled"
					v.Nontrivial = true
					field := img[s1+8 : s2]
					want := int64(s0)
					if use == "DD $" {
						want = int64(s1 + 8)
					}
					var got int64
					switch {
					case strings.HasPrefix(use, "DD") && len(field) == 4, strings.HasPrefix(use, "DW") && len(field) == 2:
						got = rdle(field)
					case use == "MOV EAX,lab" && len(field) == 5 && field[0] == 0xB8:
						got = rdle(field[1:])
					case use == "MOV EAX,[lab]" && len(field) == 5 && field[0] == 0xA1:
						got = rdle(field[1:])
					case use == "MOV EAX,[lab]" && len(field) == 6 && field[0] == 0x8B && field[1] == 0x05:
						got = rdle(field[2:])
					default:
						v.Fails = append(v.Fails, core.Fail{Facet: "use_encoding", Dev: "unexpected_bytes", Detail: fmt.Sprintf("%s assembled to % X", use, field)})
						return v
					}
					if use == "DW lab" {
						want &= 0xffff
					}
					if got != want {
						v.Fails = append(v.Fails, core.Fail{Facet: "label_value", Dev: fmt.Sprintf("%s:%+d", strings.Fields(use)[0]+"_"+strings.Fields(use)[len(strings.Fields(use))-1], clampDiff(got-want)), Detail: fmt.Sprintf("%s holds %#x, the real offset is %#x", use, got, want)})
					}
					return v
				},
			}
		},
	}
}

// c03AlignbOrigins: ALIGNB pads the ADDRESS to a multiple of n - with an ORG that is not itself a multiple of n the
// padding differs from "offset since ORG"; pass 1 and the emitted padding must agree, or every later label is displaced.
func c03AlignbOrigins() *core.Scenario {
	orgs := []int64{0x7c01, 0x7c04, 0x7c0f, 0x101, 0x7c00, 0}
	units := []int64{2, 4, 8, 16, 0x100, 0x1000}
	return &core.Scenario{
		Name: "alignb_with_unaligned_org", Bound: -1,
		Rule:   "ORG in {0x7c01, 0x7c04, 0x7c0f, 0x101, 0x7c00, none} x ALIGNB n in {2,4,8,16,0x100,0x1000} x 0..3 bytes in front x BITS: the label behind the padding must hold its sentinel-located address (DW/DD label, MOV r,label) and the address must be a multiple of n",
		Bounds: map[string]any{"origins": orgs, "units": units},
		Build: func(c *core.Chooser) *core.Case {
			mode := []int{16, 32}[c.Pick("mode", 2)]
			org := orgs[c.Pick("org", len(orgs))]
			n := units[c.Pick("unit", len(units))]
			k := c.Pick("bytes_before", 4)
			hdr := ""
			if mode == 32 {
				hdr = "[BITS 32]\n"
			}
			if org != 0 {
				hdr += fmt.Sprintf("\tORG 0x%x\n", org)
			}
			before := ""
			if k > 0 {
				before = "\tDB " + strings.TrimSuffix(strings.Repeat("7,", k), ",") + "\n"
			}
			src := hdr + before + fmt.Sprintf("\tALIGNB %d\nlab:\n", n) + sentinelLine(0) + "\tDD lab\n" + sentinelLine(1) + "\tMOV EBX,lab\n"
			return &core.Case{
				Key:  fmt.Sprintf("BITS %d|ORG 0x%x|%d bytes|ALIGNB %d", mode, org, k, n),
				Feat: feat("mode", fmt.Sprint(mode), "org", fmt.Sprintf("0x%x", org), "unit", fmt.Sprint(n)),
				Srcs: []string{src},
				Judge: func(rs []*core.Result) core.Verdict {
					r := rs[0]
					v := core.Verdict{}
					if core.ReportsError(r, nil) {
						v.Outcome = "diagnosed"
						return v
					}
					s0, s1 := findSentinel(r.Out, 0), findSentinel(r.Out, 1)
					if s0 < 0 || s1 != s0+12 {
						v.Outcome = "no_sentinels"
						v.Fails = []core.Fail{{Facet: "layout", Dev: "sentinels_lost", Detail: hexs(r.Out[:min(len(r.Out), 48)])}}
						return v
					}
					v.Outcome = "assembled"
					v.Nontrivial = true
					real := org + int64(s0)
					if real%n != 0 {
						v.Fails = append(v.Fails, core.Fail{Facet: "alignment", Dev: fmt.Sprintf("residue:%d", real%n), Detail: fmt.Sprintf("the statement behind ALIGNB %d stands at %#x", n, real)})
					}
					if got := rdle(r.Out[s0+8 : s0+12]); got != real {
						v.Fails = append(v.Fails, core.Fail{Facet: "label_value", Dev: fmt.Sprintf("DD:%+d", clampDiff(got-real)), Detail: fmt.Sprintf("DD lab holds %#x, the label is at %#x", got, real)})
					}
					if !r.ViaCLI && !r.Died && r.Sym != nil {
						if sv, ok := r.Sym["lab"]; ok && int64(sv) != real {
							v.Fails = append(v.Fails, core.Fail{Facet: "size_estimate", Dev: fmt.Sprintf("sym:%+d", clampDiff(int64(sv)-real)), Detail: fmt.Sprintf("pass 1 has lab at %#x, it is at %#x", sv, real)})
						}
					}
					return v
				},
			}
		},
	}
}
