package props

import (
	"fmt"
	"strings"

	"verifengine/core"
	"verifengine/x86ref"
)

// C02 — memory operands encode the effective address that was written.

type c02Shape struct {
	base, index string
	scale       int
	addr        int // 16 / 32 / 0 (absolute: mode)
	valid       bool
	class       string
}

func c02Shapes() []c02Shape {
	var out []c02Shape
	// 16-bit addressing
	out = append(out, c02Shape{"", "", 0, 0, true, "abs"})
	for _, b := range []string{"BX", "BP", "SI", "DI"} {
		out = append(out, c02Shape{b, "", 0, 16, true, "base16"})
	}
	for _, b := range []string{"BX", "BP"} {
		for _, i := range []string{"SI", "DI"} {
			out = append(out, c02Shape{b, i, 1, 16, true, "base+index16"})
		}
	}
	out = append(out, c02Shape{"AX", "", 0, 16, false, "invalid16"}, c02Shape{"SP", "", 0, 16, false, "invalid16"},
		c02Shape{"BX", "BP", 1, 16, false, "invalid16"}, c02Shape{"SI", "DI", 1, 16, false, "invalid16"}, c02Shape{"CX", "DX", 1, 16, false, "invalid16"})
	// mixed register widths are not an addressing form of any mode
	out = append(out, c02Shape{"BX", "EAX", 1, 16, false, "invalid_mixed"}, c02Shape{"EAX", "SI", 1, 16, false, "invalid_mixed"},
		c02Shape{"EBX", "BX", 1, 16, false, "invalid_mixed"}, c02Shape{"BP", "EDI", 1, 16, false, "invalid_mixed"})
	// 32-bit addressing
	for bi := -1; bi < 8; bi++ {
		b := ""
		if bi >= 0 {
			b = x86ref.Reg32[bi]
		}
		if b != "" {
			cl := "base32"
			if b == "ESP" {
				cl = "esp_base"
			} else if b == "EBP" {
				cl = "ebp_base"
			}
			out = append(out, c02Shape{b, "", 0, 32, true, cl})
		}
		for ii := 0; ii < 8; ii++ {
			idx := x86ref.Reg32[ii]
			for _, sc := range []int{1, 2, 4, 8} {
				valid := idx != "ESP"
				if idx == "ESP" && sc != 1 && sc != 4 {
					continue // two invalid representatives are enough
				}
				cl := "sib"
				if b == "" {
					cl = "index_only"
				} else if b == "EBP" {
					cl = "sib_ebp_base"
				} else if b == "ESP" {
					cl = "sib_esp_base"
				}
				if !valid {
					cl = "invalid_esp_index"
					if b == "" && sc == 1 {
						// [ESP*1] alone is just [ESP] written oddly: valid, base/index interchangeable at scale 1
						valid = true
						cl = "esp_times_1"
					} else if sc == 1 && b != "ESP" && b != "" {
						valid = true // [EAX+ESP*1] == [ESP+EAX*1]
						cl = "esp_times_1"
					}
				}
				out = append(out, c02Shape{b, idx, sc, 32, valid, cl})
			}
		}
	}
	return out
}

type c02Disp struct {
	has bool
	v   int64
}

var c02Disps = []c02Disp{{false, 0}, {true, 0}, {true, 1}, {true, -1}, {true, 127}, {true, 128}, {true, -128}, {true, -129}, {true, 255}, {true, 256},
	{true, 0x7fff}, {true, 0x8000}, {true, -0x8000}, {true, 0x12345678}}

func dispClass(d c02Disp) string {
	if !d.has {
		return "none"
	}
	switch {
	case d.v == 0:
		return "0"
	case d.v >= -128 && d.v <= 127:
		return "s8"
	case d.v >= -0x8000 && d.v <= 0x7fff:
		return "s16"
	case d.v <= 0xffff && d.v > 0:
		return "u16"
	}
	return "32"
}

func c02MemText(s c02Shape, d c02Disp, variant int) string {
	var terms []string
	if s.base != "" {
		terms = append(terms, s.base)
	}
	if s.index != "" {
		if s.addr == 32 {
			if s.scale == 1 && variant != 3 {
				terms = append(terms, s.index)
			} else {
				terms = append(terms, fmt.Sprintf("%s*%d", s.index, s.scale))
			}
		} else {
			terms = append(terms, s.index)
		}
	}
	dtxt := ""
	if d.has {
		if d.v < 0 {
			dtxt = fmt.Sprintf("%d", -d.v)
		} else if d.v < 10 {
			dtxt = fmt.Sprintf("%d", d.v)
		} else {
			dtxt = fmt.Sprintf("0x%x", d.v)
		}
	}
	switch variant {
	case 1: // displacement first
		if d.has && d.v >= 0 && len(terms) > 0 {
			return "[" + dtxt + "+" + strings.Join(terms, "+") + "]"
		}
	case 2: // spaces
		if len(terms) == 0 {
			return "[ " + dtxt + " ]"
		}
		body := strings.Join(terms, " + ")
		if d.has {
			if d.v < 0 {
				body += " - " + dtxt
			} else {
				body += " + " + dtxt
			}
		}
		return "[ " + body + " ]"
	case 3: // index first (and explicit *1)
		if len(terms) == 2 {
			terms[0], terms[1] = terms[1], terms[0]
		}
	}
	if len(terms) == 0 {
		return "[" + dtxt + "]"
	}
	body := strings.Join(terms, "+")
	if d.has {
		if d.v < 0 {
			body += "-" + dtxt
		} else {
			body += "+" + dtxt
		}
	}
	return "[" + body + "]"
}

var c02Carriers = []string{"load", "store", "alu_load", "cmp_store", "store_imm", "not", "shl1", "push", "pop", "moffs_load", "moffs_store"}

func c02Scenario(tier string) *core.Scenario {
	shapes := c02Shapes()
	carriers := c02Carriers
	widths := []int{8, 16, 32}
	variants := 1
	if tier != "thorough" {
		carriers = []string{"load", "store_imm", "push", "moffs_load", "alu_load", "not", "shl1", "pop"} // one per codegen handler family
		widths = []int{16, 32}
	} else {
		variants = 4
	}
	return &core.Scenario{
		Name: "ea", Bound: -1,
		Rule: "every 16-bit and 32-bit addressing shape (valid and invalid) x 14 displacements x carrier instruction x width x BITS (+ term-order/spacing variants in the thorough tier); non-trivial = assembled without error and emitted >= 1 byte; distinct = distinct (mode, bytes)",
		Bounds: map[string]any{"shapes": len(shapes), "displacements": 14, "carriers": carriers, "widths": widths, "variants": variants,
			"not_judged": "displacements that do not fit the address width; absolute addresses above 0xffff in 16-bit mode are expected with 32-bit addressing"},
		Build: func(c *core.Chooser) *core.Case {
			mode := []int{16, 32}[c.Pick("mode", 2)]
			car := carriers[c.Pick("carrier", len(carriers))]
			w := widths[c.Pick("w", len(widths))]
			moffs := strings.HasPrefix(car, "moffs")
			var s c02Shape
			if moffs {
				s = shapes[0]
			} else {
				s = shapes[c.Pick("shape", len(shapes))]
			}
			d := c02Disps[c.Pick("disp", len(c02Disps))]
			variant := 0
			if variants > 1 && (s.class == "sib" || s.class == "base16" || s.class == "base32" || s.class == "base+index16") && (w == 16) && (car == "load") {
				variant = c.Pick("variant", variants)
			}
			if s.base == "" && s.index == "" && (!d.has || d.v < 0) {
				return nil
			}
			if (car == "push" || car == "pop") && w == 8 {
				return nil
			}
			addr := s.addr
			if addr == 0 {
				addr = mode
				if mode == 16 && d.v > 0xffff {
					return nil // an absolute address that does not fit 16 bits in 16-bit mode: outside the model
				}
			}
			if addr == 16 && (d.v > 0xffff || d.v < -0x8000) {
				return nil // displacement does not fit the address width: outside the model
			}
			if variant == 1 && (!d.has || d.v < 0) {
				return nil
			}
			if variant == 3 && (s.index == "") {
				return nil
			}
			mt := c02MemText(s, d, variant)
			spec := x86ref.MemSpec{Base: s.base, Index: s.index, Scale: s.scale, Disp: d.v, AddrSize: addr, Abs: s.base == "" && s.index == ""}
			m := memShape{mt, spec}
			reg := map[int]string{8: "CL", 16: "CX", 32: "ECX"}[w]
			acc := map[int]string{8: "AL", 16: "AX", 32: "EAX"}[w]
			var stmt string
			var want x86ref.Want
			switch car {
			case "load":
				stmt, want = fmt.Sprintf("MOV %s,%s", reg, mt), x86ref.Want{Op: "MOV", OpSize: w, Ops: []x86ref.WantOp{wreg(reg), wmem(m, w)}}
			case "store":
				stmt, want = fmt.Sprintf("MOV %s,%s", mt, reg), x86ref.Want{Op: "MOV", OpSize: w, Ops: []x86ref.WantOp{wmem(m, w), wreg(reg)}}
			case "alu_load":
				stmt, want = fmt.Sprintf("ADD %s,%s", reg, mt), x86ref.Want{Op: "ADD", OpSize: w, Ops: []x86ref.WantOp{wreg(reg), wmem(m, w)}}
			case "cmp_store":
				stmt, want = fmt.Sprintf("CMP %s,%s", mt, reg), x86ref.Want{Op: "CMP", OpSize: w, Ops: []x86ref.WantOp{wmem(m, w), wreg(reg)}}
			case "store_imm":
				stmt, want = fmt.Sprintf("MOV %s %s,0x5a", sizeKw(w), mt), x86ref.Want{Op: "MOV", OpSize: w, Ops: []x86ref.WantOp{wmem(m, w), wimm(0x5a, w)}}
			case "not":
				stmt, want = fmt.Sprintf("NOT %s %s", sizeKw(w), mt), x86ref.Want{Op: "NOT", OpSize: w, Ops: []x86ref.WantOp{wmem(m, w)}}
			case "shl1":
				stmt, want = fmt.Sprintf("SHL %s %s,1", sizeKw(w), mt), x86ref.Want{Op: "SHL", OpSize: w, Ops: []x86ref.WantOp{wmem(m, w), wimm(1, 8)}}
			case "push":
				stmt, want = fmt.Sprintf("PUSH %s %s", sizeKw(w), mt), x86ref.Want{Op: "PUSH", OpSize: w, Ops: []x86ref.WantOp{wmem(m, w)}}
			case "pop":
				stmt, want = fmt.Sprintf("POP %s %s", sizeKw(w), mt), x86ref.Want{Op: "POP", OpSize: w, Ops: []x86ref.WantOp{wmem(m, w)}}
			case "moffs_load":
				stmt, want = fmt.Sprintf("MOV %s,%s", acc, mt), x86ref.Want{Op: "MOV", OpSize: w, Ops: []x86ref.WantOp{wreg(acc), wmem(m, w)}}
			case "moffs_store":
				stmt, want = fmt.Sprintf("MOV %s,%s", mt, acc), x86ref.Want{Op: "MOV", OpSize: w, Ops: []x86ref.WantOp{wmem(m, w), wreg(acc)}}
			}
			f := feat("carrier", car, "w", fmt.Sprint(w), "addr", fmt.Sprint(addr), "class", s.class, "base", s.base, "index", s.index,
				"scale", fmt.Sprint(s.scale), "disp", dispClass(d), "variant", fmt.Sprint(variant), "valid", fmt.Sprint(s.valid))
			cs := insnCase(mode, stmt, want, f, nil)
			return cs
		},
	}
}

// c02Context: the statement under test comes BEHIND another statement of the same mnemonic, register
// and direction but a different kind of address (absolute <-> register based, other displacement
// class): whatever is remembered from the first must not leak into the second.
func c02Context() *core.Scenario {
	type mem struct {
		text string
		spec x86ref.MemSpec
	}
	mems := func(mode int) []mem {
		return []mem{
			{"[0x1234]", x86ref.MemSpec{Disp: 0x1234, AddrSize: mode, Abs: true}},
			{"[BX]", x86ref.MemSpec{Base: "BX", AddrSize: 16}},
			{"[SI+4]", x86ref.MemSpec{Base: "SI", Disp: 4, AddrSize: 16}},
			{"[BX+0x200]", x86ref.MemSpec{Base: "BX", Disp: 0x200, AddrSize: 16}},
			{"[EBX]", x86ref.MemSpec{Base: "EBX", AddrSize: 32}},
			{"[ESI+4]", x86ref.MemSpec{Base: "ESI", Disp: 4, AddrSize: 32}},
			{"[EBX+ECX*4+0x200]", x86ref.MemSpec{Base: "EBX", Index: "ECX", Scale: 4, Disp: 0x200, AddrSize: 32}},
			{"[ESP+8]", x86ref.MemSpec{Base: "ESP", Disp: 8, AddrSize: 32}},
		}
	}
	regs := map[int][]string{8: {"AL", "CL"}, 16: {"AX", "DX"}, 32: {"EAX", "EBX"}}
	ops := []string{"MOV", "ADD", "CMP"}
	return &core.Scenario{
		Name: "ea_behind_same_shape", Bound: -1,
		Rule:   "{MOV,ADD,CMP} x {load,store} x accumulator and non-accumulator registers of 3 widths x every ordered pair of 8 memory operands (absolute, 16-bit and 32-bit register based): the SECOND statement, located by sentinels, must decode to its source meaning; x BITS",
		Bounds: map[string]any{"ops": ops, "memory_operands": 8, "registers": regs},
		Build: func(c *core.Chooser) *core.Case {
			mode := []int{16, 32}[c.Pick("mode", 2)]
			op := ops[c.Pick("op", len(ops))]
			w := []int{8, 16, 32}[c.Pick("w", 3)]
			reg := regs[w][c.Pick("reg", 2)]
			store := c.Bool("store")
			ms := mems(mode)
			a := ms[c.Pick("first", len(ms))]
			b := ms[c.Pick("second", len(ms))]
			if mode == 32 && (a.spec.AddrSize == 16 || b.spec.AddrSize == 16) {
				return nil // 16-bit register addressing is refused under BITS 32
			}
			mk := func(m mem) string {
				if store {
					return fmt.Sprintf("%s %s,%s", op, m.text, reg)
				}
				return fmt.Sprintf("%s %s,%s", op, reg, m.text)
			}
			var want x86ref.Want
			mb := memShape{b.text, b.spec}
			if store {
				want = x86ref.Want{Op: op, OpSize: w, Ops: []x86ref.WantOp{wmem(mb, w), wreg(reg)}}
			} else {
				want = x86ref.Want{Op: op, OpSize: w, Ops: []x86ref.WantOp{wreg(reg), wmem(mb, w)}}
			}
			src := bitsHeader(mode) + "\t" + mk(a) + "\n" + sentinelLine(0) + "\t" + mk(b) + "\n" + sentinelLine(1)
			base := bitsHeader(mode) + "\t" + mk(a) + "\n" + sentinelLine(0) + sentinelLine(1)
			return &core.Case{
				Key:  fmt.Sprintf("BITS %d|%s ; %s", mode, mk(a), mk(b)),
				Feat: feat("mode", fmt.Sprint(mode), "op", op, "w", fmt.Sprint(w), "reg", reg, "store", fmt.Sprint(store), "first", a.text, "second", b.text),
				Srcs: []string{src, base},
				Judge: func(rs []*core.Result) core.Verdict {
					v := core.Verdict{}
					if core.ReportsError(rs[0], rs[1]) || core.ReportsError(rs[1], nil) {
						v.Outcome = "diagnosed"
						return v
					}
					region, ok := between(rs[0].Out, 0, 1)
					if !ok {
						v.Outcome = "layout"
						v.Fails = []core.Fail{{Facet: "layout", Dev: "sentinels_lost", Detail: hexs(rs[0].Out)}}
						return v
					}
					v.Outcome = "ok"
					v.Nontrivial = len(region) > 0
					diffs, _ := x86ref.Compare(region, mode, want)
					for _, d := range diffs {
						v.Fails = append(v.Fails, core.Fail{Facet: d.Facet, Dev: d.Dev, Detail: d.Info})
					}
					return v
				},
			}
		},
	}
}

func init() {
	register(&Property{
		ID: "C02",
		Scenarios: func(tier string) []*core.Scenario {
			return []*core.Scenario{c02Scenario(tier), c02Context(), modeContextScenario("ea_in_mode_switching_file"), memLabelScenario("ea_label")}
		},
		Pre: x86refSelfCheck,
		Assumptions: []string{
			"effective addresses are compared as linear forms (register -> coefficient, displacement) modulo 2^(address size), so [ECX*1] == [ECX] and base/index may be swapped at scale 1; no particular byte string is demanded",
			"a memory operand that cannot be encoded ([AX], [BX+BP], ESP as scaled index) is caught by the same oracle: no encodable address equals it, so anything emitted without an error fails the ea facet",
			"a statement for which gosk reports an error is not judged",
		},
	})
}
