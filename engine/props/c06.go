package props

import (
	"fmt"
	"math/big"
	"strings"

	"verifengine/core"
	"verifengine/x86ref"
)

// C06 — constant expressions are evaluated arithmetically.

type exprNode struct {
	op   string // "" = leaf
	l, r *exprNode
	leaf int // index of the leaf (left to right)
}

// shapes(n): all binary trees with n internal nodes.
func exprShapes(n int) []*exprNode {
	if n == 0 {
		return []*exprNode{{}}
	}
	var out []*exprNode
	for k := 0; k < n; k++ {
		for _, l := range exprShapes(k) {
			for _, r := range exprShapes(n - 1 - k) {
				out = append(out, &exprNode{op: "?", l: l, r: r})
			}
		}
	}
	return out
}

func cloneAssign(t *exprNode, ops []string, oi *int, li *int) *exprNode {
	if t.op == "" {
		n := &exprNode{leaf: *li}
		*li++
		return n
	}
	n := &exprNode{}
	n.op = ops[*oi]
	*oi++
	// pre-order operator numbering, in-order leaf numbering
	n.l = cloneAssign(t.l, ops, oi, li)
	n.r = cloneAssign(t.r, ops, oi, li)
	return n
}

func prec(op string) int {
	if op == "+" || op == "-" {
		return 1
	}
	return 2
}

func litText(v int64) string {
	if v >= 16 {
		return fmt.Sprintf("0x%x", v)
	}
	return fmt.Sprintf("%d", v)
}

// render: style 0 minimal parentheses, 1 fully parenthesised, 2 minimal with spacing variants.
func (t *exprNode) render(leaves []int64, style int) string {
	if t.op == "" {
		if style == 1 && leaves[t.leaf] >= 0 {
			return "(" + litText(leaves[t.leaf]) + ")"
		}
		return litText(leaves[t.leaf])
	}
	l, r := t.l.render(leaves, style), t.r.render(leaves, style)
	if style == 1 {
		return "(" + l + t.op + r + ")"
	}
	if t.l.op != "" && prec(t.l.op) < prec(t.op) {
		l = "(" + l + ")"
	}
	if t.r.op != "" && prec(t.r.op) <= prec(t.op) {
		r = "(" + r + ")"
	}
	if style == 2 {
		if t.op == "-" {
			return l + " -" + r
		}
		return l + " " + t.op + " " + r
	}
	return l + t.op + r
}

var i64min = big.NewInt(-1 << 63)
var i64max = new(big.Int).SetUint64(1<<63 - 1)

// eval: reference evaluation with arbitrary precision. status: "ok", "div0", "overflow" (outside int64: not judged).
func (t *exprNode) eval(leaves []int64) (*big.Int, string) {
	if t.op == "" {
		return big.NewInt(leaves[t.leaf]), "ok"
	}
	a, sa := t.l.eval(leaves)
	b, sb := t.r.eval(leaves)
	if sa == "overflow" || sb == "overflow" {
		return nil, "overflow" // wrapped arithmetic is not modelled (not even whether a divisor becomes zero)
	}
	if sa != "ok" {
		return nil, sa
	}
	if sb != "ok" {
		return nil, sb
	}
	v := new(big.Int)
	switch t.op {
	case "+":
		v.Add(a, b)
	case "-":
		v.Sub(a, b)
	case "*":
		v.Mul(a, b)
	case "/":
		if b.Sign() == 0 {
			return nil, "div0"
		}
		v.Quo(a, b) // truncates toward zero
	case "%":
		if b.Sign() == 0 {
			return nil, "div0"
		}
		v.Rem(a, b)
	}
	if v.Cmp(i64min) < 0 || v.Cmp(i64max) > 0 {
		return nil, "overflow"
	}
	return v, "ok"
}

var exprOps = []string{"+", "-", "*", "/", "%"}

func c06Trees(maxOps int, lits []int64, name string) *core.Scenario {
	return &core.Scenario{
		Name: name, Bound: -1,
		Rule:   fmt.Sprintf("all expression trees with <= %d binary operators over {+,-,*,/,%%} and the literal set %v, each rendered 3 ways (minimal parentheses, fully parenthesised, spaced), observed through DD; one program per (shape, operators, leading leaves, rendering) holding all combinations of the last two leaves; non-trivial = expressions with >= 1 operator whose value fits int64; expressions with a zero divisor are assembled alone and must be diagnosed", maxOps, lits),
		Bounds: map[string]any{"max_operators": maxOps, "literals": lits, "renderings": 3, "not_judged": "values (or intermediate values) outside int64"},
		Build: func(c *core.Chooser) *core.Case {
			n := c.Pick("nops", maxOps+1)
			shapes := exprShapes(n)
			sh := shapes[c.Pick("shape", len(shapes))]
			ops := make([]string, n)
			for i := range ops {
				ops[i] = exprOps[c.Pick(fmt.Sprintf("op%d", i), len(exprOps))]
			}
			style := c.Pick("render", 3)
			oi, li := 0, 0
			tree := cloneAssign(sh, ops, &oi, &li)
			nl := n + 1
			lead := nl - 2
			if lead < 0 {
				lead = 0
			}
			leaves := make([]int64, nl)
			for i := 0; i < lead; i++ {
				leaves[i] = lits[c.Pick(fmt.Sprintf("leaf%d", i), len(lits))]
			}
			type item struct {
				text   string
				want   *big.Int
				status string
			}
			var items []item
			var rec func(i int)
			rec = func(i int) {
				if i == nl {
					lv := append([]int64(nil), leaves...)
					v, st := tree.eval(lv)
					items = append(items, item{tree.render(lv, style), v, st})
					return
				}
				for _, x := range lits {
					leaves[i] = x
					rec(i + 1)
				}
			}
			rec(lead)
			var batch strings.Builder
			var batchItems []item
			srcs := []string{""}
			var singles []item
			for _, it := range items {
				if it.status == "overflow" {
					continue // a value or intermediate value leaves int64: outside the model, not assembled
				}
				if it.status == "div0" {
					singles = append(singles, it)
					srcs = append(srcs, "\tDD "+it.text+"\n")
					continue
				}
				batchItems = append(batchItems, it)
				batch.WriteString("\tDD " + it.text + "\n")
			}
			srcs[0] = batch.String()
			if len(batchItems) == 0 {
				srcs[0] = "\tDD 0\n"
				batchItems = []item{{"0", big.NewInt(0), "ok"}}
			}
			key := fmt.Sprintf("n=%d shape=%s ops=%v lead=%v render=%d", n, tree.render(make([]int64, nl), 1), ops, leaves[:lead], style)
			return &core.Case{
				Key:  key,
				Feat: feat("nops", fmt.Sprint(n), "ops", strings.Join(ops, ""), "render", fmt.Sprint(style), "shape", tree.render(make([]int64, nl), 1)),
				Srcs: srcs,
				Judge: func(rs []*core.Result) core.Verdict {
					v := core.Verdict{Outcome: "assembled"}
					r := rs[0]
					judged := 0
					if core.ReportsError(r, nil) || len(r.Out) != 4*len(batchItems) {
						v.Outcome = "batch_diagnosed"
						v.Fails = append(v.Fails, core.Fail{Facet: "value", Dev: "valid_expression_refused_or_misaligned",
							Detail: fmt.Sprintf("%d expressions, %d bytes; %s; first: DD %s", len(batchItems), len(r.Out), errSummary(r), batchItems[0].text)})
					} else {
						for i, it := range batchItems {
							if it.status != "ok" {
								continue // outside int64: not judged
							}
							judged++
							got := uint32(rdle(r.Out[4*i : 4*i+4]))
							want := uint32(new(big.Int).And(it.want, big.NewInt(0xffffffff)).Uint64())
							if it.want.Sign() < 0 {
								want = uint32(it.want.Int64())
							}
							if got != want {
								v.Fails = append(v.Fails, core.Fail{Facet: "value", Dev: "wrong_value",
									Detail: fmt.Sprintf("DD %s = %#x, reference value %s (%#x)", it.text, got, it.want.String(), want)})
								if len(v.Fails) > 3 {
									break
								}
							}
						}
					}
					for i, it := range singles {
						if !core.ReportsError(rs[1+i], nil) {
							v.Fails = append(v.Fails, core.Fail{Facet: "div_zero", Dev: "accepted",
								Detail: fmt.Sprintf("DD %s has a zero divisor but assembled without error to %x", it.text, rs[1+i].Out)})
						}
					}
					v.Nontrivial = n >= 1 && judged > 0
					return v
				},
			}
		},
	}
}

// positions: a reduced expression set in every other operand position that admits an expression.
func c06Positions(lits []int64) *core.Scenario {
	positions := []string{"EQU_reuse", "DB", "DW", "MOV AX", "MOV EAX", "MOV CL", "[BX+e]", "[EBX+e]", "[e+BX]", "[BX+e-1]", "[BX+SI+e]", "[EBX+ESI+e]", "[EBX+ESI*2+e]", "[BX+e+SI]", "RESB", "EQU", "EQU_chain", "EQU_dollar", "ORG", "ADD CX", "PUSH",
		"IMUL CX", "IMUL ECX", "CMP AL", "SUB EAX", "AND BX", "OR BYTE [BX]", "MOV WORD [SI]", "XOR DWORD [EBX]", "EQU_case_twins", "EQU_dollar_relaxed"}
	return &core.Scenario{
		Name: "positions", Bound: -1,
		Rule:   "all expressions with <= 1 operator (and a 2-operator sample) over the literal set, placed in every operand position that admits an expression (data, immediates, displacements before/after/around a register term, RESB, EQU bodies, ORG); the encoded value must be the reference value modulo the field width; non-trivial = expression with an operator",
		Bounds: map[string]any{"positions": positions, "literals": lits},
		Build: func(c *core.Chooser) *core.Case {
			pos := positions[c.Pick("pos", len(positions))]
			n := c.Pick("nops", 3)
			var tree *exprNode
			var leaves []int64
			switch n {
			case 0:
				tree = &exprNode{}
				leaves = []int64{lits[c.Pick("a", len(lits))]}
			case 1:
				op := exprOps[c.Pick("op", 5)]
				tree = &exprNode{op: op, l: &exprNode{leaf: 0}, r: &exprNode{leaf: 1}}
				leaves = []int64{lits[c.Pick("a", len(lits))], lits[c.Pick("b", len(lits))]}
			default:
				op1, op2 := exprOps[c.Pick("op", 5)], exprOps[c.Pick("op2", 5)]
				if c.Bool("right_nested") {
					tree = &exprNode{op: op1, l: &exprNode{leaf: 0}, r: &exprNode{op: op2, l: &exprNode{leaf: 1}, r: &exprNode{leaf: 2}}}
				} else {
					tree = &exprNode{op: op1, l: &exprNode{op: op2, l: &exprNode{leaf: 0}, r: &exprNode{leaf: 1}}, r: &exprNode{leaf: 2}}
				}
				small := []int64{lits[1], lits[2], lits[3]}
				leaves = []int64{small[c.Pick("a", 3)], small[c.Pick("b", 3)], small[c.Pick("c", 3)]}
			}
			style := 0
			e := tree.render(leaves, style)
			val, st := tree.eval(leaves)
			if st == "overflow" {
				return nil
			}
			if st == "ok" && (pos == "RESB") && (val.Sign() < 0 || val.Cmp(big.NewInt(4096)) > 0) {
				return nil
			}
			if st == "ok" && pos == "ORG" && (val.Sign() < 0 || val.Cmp(big.NewInt(0xffff)) > 0) {
				return nil
			}
			ep := e
			if tree.op != "" && prec(tree.op) == 1 {
				ep = "(" + e + ")" // keep the expression one term inside [reg+e]
			}
			var src string
			switch pos {
			case "DB", "DW":
				src = sentinelLine(0) + "\t" + pos + " " + e + "\n" + sentinelLine(1)
			case "MOV AX", "MOV EAX", "MOV CL", "ADD CX", "IMUL CX", "IMUL ECX", "CMP AL", "SUB EAX", "AND BX", "OR BYTE [BX]", "MOV WORD [SI]", "XOR DWORD [EBX]":
				src = sentinelLine(0) + "\t" + pos + "," + e + "\n" + sentinelLine(1)
			case "PUSH":
				src = sentinelLine(0) + "\tPUSH " + e + "\n" + sentinelLine(1)
			case "[BX+e]":
				src = sentinelLine(0) + "\tMOV AX,[BX+" + ep + "]\n" + sentinelLine(1)
			case "[EBX+e]":
				src = sentinelLine(0) + "\tMOV AX,[EBX+" + ep + "]\n" + sentinelLine(1)
			case "[e+BX]":
				src = sentinelLine(0) + "\tMOV AX,[" + ep + "+BX]\n" + sentinelLine(1)
			case "[BX+e-1]":
				src = sentinelLine(0) + "\tMOV AX,[BX+" + ep + "-1]\n" + sentinelLine(1)
			case "[BX+SI+e]":
				src = sentinelLine(0) + "\tMOV AX,[BX+SI+" + ep + "]\n" + sentinelLine(1)
			case "[EBX+ESI+e]":
				src = sentinelLine(0) + "\tMOV AX,[EBX+ESI+" + ep + "]\n" + sentinelLine(1)
			case "[EBX+ESI*2+e]":
				src = sentinelLine(0) + "\tMOV AX,[EBX+ESI*2+" + ep + "]\n" + sentinelLine(1)
			case "[BX+e+SI]":
				src = sentinelLine(0) + "\tMOV AX,[BX+" + ep + "+SI]\n" + sentinelLine(1)
			case "RESB":
				src = sentinelLine(0) + "\tRESB " + e + "\n" + sentinelLine(1)
			case "EQU":
				src = "X EQU " + e + "\n" + sentinelLine(0) + "\tDD X\n" + sentinelLine(1)
			case "EQU_chain":
				src = "X EQU " + e + "\nY EQU X*2+1\n" + sentinelLine(0) + "\tDD Y\n" + sentinelLine(1)
			case "EQU_dollar": // the body uses $: it must be evaluated where the definition stands (ORG 0x7c00, 11 bytes emitted)
				src = "\tORG 0x7c00\n\tDB 1,2,3\n" + sentinelLine(2) + "X EQU $+" + ep + "\n\tDB 4\n" + sentinelLine(0) + "\tDD X\n" + sentinelLine(1)
			case "EQU_reuse": // the name is used as first factor of a product/quotient/remainder and then again
				src = "X EQU " + e + "\nK EQU 3\n\tDD X*K\n\tDD X/K\n\tDD X%K\n\tDD K*X\n" + sentinelLine(0) + "\tDD X\n" + sentinelLine(1) + "\tDD K\n"
			case "EQU_dollar_relaxed": // as EQU_dollar, behind a JMP that has to grow (pass 1 runs twice; $ moves between the runs)
				src = "\tORG 0x7c00\n\tJMP over\n\tRESB 200\nover:\n" + sentinelLine(2) + "X EQU $+" + ep + "\n\tDB 4\n" + sentinelLine(0) + "\tDD X\n" + sentinelLine(1)
			case "EQU_case_twins": // names that differ only in case are different names
				src = "val EQU " + e + "\nVAL EQU 77\nVal EQU 78\n\tDD VAL,Val\n" + sentinelLine(0) + "\tDD val\n" + sentinelLine(1)
			case "ORG":
				src = "\tORG " + e + "\nhere:\n" + sentinelLine(0) + "\tDD here\n" + sentinelLine(1)
			}
			return &core.Case{
				Key:  pos + " | " + e,
				Feat: feat("pos", pos, "nops", fmt.Sprint(n), "status", st, "op", tree.op),
				Srcs: []string{src},
				Judge: func(rs []*core.Result) core.Verdict {
					r := rs[0]
					v := core.Verdict{}
					rep := core.ReportsError(r, nil)
					if st == "div0" {
						v.Outcome = "div0"
						if !rep {
							v.Fails = []core.Fail{{Facet: "div_zero", Dev: "accepted", Detail: fmt.Sprintf("%s with a zero divisor assembled silently to %x", pos, r.Out)}}
						}
						return v
					}
					if rep {
						v.Outcome = "diagnosed"
						return v
					}
					v.Outcome = "assembled"
					v.Nontrivial = n >= 1
					reg, ok := between(r.Out, 0, 1)
					if !ok {
						v.Fails = []core.Fail{{Facet: "layout", Dev: "sentinels_lost", Detail: hexs(r.Out)}}
						return v
					}
					want := val.Int64()
					var got int64
					width := 32
					fail := func(dev, detail string) {
						v.Fails = append(v.Fails, core.Fail{Facet: "value", Dev: dev, Detail: fmt.Sprintf("%s %s: %s (reference value %d, bytes %x)", pos, e, detail, want, reg)})
					}
					switch pos {
					case "DB":
						width = 8
						if len(reg) != 1 {
							fail("length", "expected 1 byte")
							return v
						}
						got = rdle(reg)
					case "DW":
						width = 16
						if len(reg) != 2 {
							fail("length", "expected 2 bytes")
							return v
						}
						got = rdle(reg)
					case "EQU", "ORG", "EQU_reuse", "EQU_case_twins":
						if len(reg) != 4 {
							fail("length", "expected 4 bytes")
							return v
						}
						got = rdle(reg)
					case "EQU_dollar_relaxed":
						want = want + 0x7c00 + 3 + 200 + 8
						if len(reg) != 4 {
							fail("length", "expected 4 bytes")
							return v
						}
						got = rdle(reg)
					case "EQU_dollar":
						want = want + 0x7c00 + 11
						if len(reg) != 4 {
							fail("length", "expected 4 bytes")
							return v
						}
						got = rdle(reg)
					case "EQU_chain":
						want = want*2 + 1
						if len(reg) != 4 {
							fail("length", "expected 4 bytes")
							return v
						}
						got = rdle(reg)
					case "RESB":
						if int64(len(reg)) != want {
							fail("length", fmt.Sprintf("reserved %d bytes", len(reg)))
						}
						return v
					default:
						in, err := x86ref.Decode(reg, 16)
						if err != nil || in.Len != len(reg) {
							fail("undecodable", fmt.Sprint(err))
							return v
						}
						found := false
						for _, o := range in.Ops {
							if o.Kind == "imm" {
								got, width, found = o.Imm, o.Size, true
							} else if o.Kind == "mem" && pos != "OR BYTE [BX]" && pos != "MOV WORD [SI]" && pos != "XOR DWORD [EBX]" { // ("op size [mem],e": the value is the immediate)
								got, width, found = o.Mem.Disp, o.Mem.AddrSize, true
								if pos == "[BX+e-1]" {
									want = want - 1
								}
								wantIdx := map[string]string{"[BX+SI+e]": "SI", "[EBX+ESI+e]": "ESI", "[EBX+ESI*2+e]": "ESI", "[BX+e+SI]": "SI"}[pos]
								idxOK := o.Mem.Index == wantIdx
								if wantIdx != "" && o.Mem.Base == wantIdx && (o.Mem.Index == "BX" || o.Mem.Index == "EBX") && pos != "[EBX+ESI*2+e]" {
									idxOK = true // base and unscaled index are interchangeable
								} else if (o.Mem.Base != "BX" && o.Mem.Base != "EBX") || !idxOK {
									fail("register_term_lost", in.String())
								}
							}
						}
						if !found {
							fail("no_value_field", in.String())
							return v
						}
					}
					mask := int64(1)<<uint(width) - 1
					if (got^want)&mask != 0 {
						fail("wrong_value", fmt.Sprintf("encoded %#x, want %#x (mod 2^%d)", got&mask, want&mask, width))
					}
					return v
				},
			}
		},
	}
}

// c06Pairs: two expressions that differ only in their parentheses (or only in one literal) in ONE program: what the
// assembler remembers about the first (a folded value keyed by its printed form) must not leak into the second.
func c06Pairs() *core.Scenario {
	leafSets := [][]int64{{8, 2, 3}, {100, 5, 2}, {7, 7, 2}}
	carriers := []string{"DD", "MOV_AX", "DW_EQU"}
	return &core.Scenario{
		Name: "same_tokens_pairs", Bound: -1,
		Rule:   "for every operator pair (op1, op2) and leaf triple: the three groupings a op1 b op2 c / (a op1 b) op2 c / a op1 (b op2 c) - identical once parentheses are dropped - and one variant with a different last literal, every ordered pair of them in one program (through DD, MOV immediates and EQU bodies); each must have its own reference value",
		Bounds: map[string]any{"leaf_triples": leafSets, "carriers": carriers, "operators": exprOps},
		Build: func(c *core.Chooser) *core.Case {
			lv := leafSets[c.Pick("leaves", len(leafSets))]
			op1, op2 := exprOps[c.Pick("op1", 5)], exprOps[c.Pick("op2", 5)]
			car := carriers[c.Pick("carrier", len(carriers))]
			left := &exprNode{op: op2, l: &exprNode{op: op1, l: &exprNode{leaf: 0}, r: &exprNode{leaf: 1}}, r: &exprNode{leaf: 2}}
			right := &exprNode{op: op1, l: &exprNode{leaf: 0}, r: &exprNode{op: op2, l: &exprNode{leaf: 1}, r: &exprNode{leaf: 2}}}
			natural := left
			if prec(op2) > prec(op1) {
				natural = right
			}
			type ex struct {
				text string
				tree *exprNode
				lv   []int64
			}
			a, b, cc := litText(lv[0]), litText(lv[1]), litText(lv[2])
			other := []int64{lv[0], lv[1], lv[2] + 1}
			vars := []ex{
				{a + op1 + b + op2 + cc, natural, lv},
				{"(" + a + op1 + b + ")" + op2 + cc, left, lv},
				{a + op1 + "(" + b + op2 + cc + ")", right, lv},
				{a + op1 + b + op2 + litText(other[2]), natural, other},
			}
			i, j := c.Pick("first", len(vars)), c.Pick("second", len(vars))
			if i == j {
				return nil
			}
			e1, e2 := vars[i], vars[j]
			v1, s1 := e1.tree.eval(e1.lv)
			v2, s2 := e2.tree.eval(e2.lv)
			if s1 != "ok" || s2 != "ok" {
				return nil
			}
			var src string
			switch car {
			case "DD":
				src = sentinelLine(0) + "\tDD " + e1.text + "\n" + sentinelLine(1) + "\tDD " + e2.text + "\n" + sentinelLine(2)
			case "MOV_AX":
				src = "[BITS 32]\n" + sentinelLine(0) + "\tMOV EAX," + e1.text + "\n" + sentinelLine(1) + "\tMOV EBX," + e2.text + "\n" + sentinelLine(2)
			case "DW_EQU":
				src = "P EQU " + e1.text + "\nQ EQU " + e2.text + "\n" + sentinelLine(0) + "\tDD P\n" + sentinelLine(1) + "\tDD Q\n" + sentinelLine(2)
			}
			return &core.Case{
				Key:  car + " | " + e1.text + " ; " + e2.text,
				Feat: feat("pos", "pair_"+car, "op", op1, "op2", op2, "first", fmt.Sprint(i), "second", fmt.Sprint(j)),
				Srcs: []string{src},
				Judge: func(rs []*core.Result) core.Verdict {
					r := rs[0]
					v := core.Verdict{}
					if core.ReportsError(r, nil) {
						v.Outcome = "diagnosed"
						v.Fails = []core.Fail{{Facet: "value", Dev: "refused", Detail: errSummary(r)}}
						return v
					}
					v.Outcome, v.Nontrivial = "assembled", true
					for k, want := range []*big.Int{v1, v2} {
						reg, ok := between(r.Out, k, k+1)
						if !ok || len(reg) < 4 {
							v.Fails = append(v.Fails, core.Fail{Facet: "layout", Dev: "sentinels_lost", Detail: hexs(r.Out)})
							return v
						}
						got := rdle(reg[len(reg)-4:])
						if (got^want.Int64())&0xffffffff != 0 {
							which := []string{"first", "second"}[k]
							v.Fails = append(v.Fails, core.Fail{Facet: "value", Dev: "wrong_value_" + which,
								Detail: fmt.Sprintf("%s expression of the pair (%s ; %s) encoded %#x, reference value %d", which, e1.text, e2.text, got&0xffffffff, want)})
						}
					}
					return v
				},
			}
		},
	}
}

// c06Spellings: one value, many spellings of the literal (leading zeros, hexadecimal digit case and padding,
// character literal, sign), in every kind of position.
func c06Spellings() *core.Scenario {
	type lit struct {
		text string
		val  int64
	}
	lits := []lit{{"010", 10}, {"0010", 10}, {"017", 17}, {"0100", 100}, {"00", 0}, {"007", 7}, {"08", 8}, {"09", 9}, {"-012", -12}, {"0000000064", 64},
		{"0x0A", 10}, {"0X0a", 10}, {"0x00ff", 255}, {"0xFF", 255}, {"0Xff", 255}, {"0x000000001f", 31}, {"'A'", 65}, {"'0'", 48}, {"' '", 32}, {"'~'", 126}}
	forms := []string{"{}", "{}+1", "2*{}", "({})", "{}/2", "1+{}*2"}
	positions := []string{"DB", "DW", "DD", "MOV AL", "MOV EAX", "[BX+e]", "RESB", "EQU", "ADD CX"}
	return &core.Scenario{
		Name: "literal_spellings", Bound: -1,
		Rule:   "20 spellings of literals (decimal with leading zeros - never octal -, hexadecimal with either case of x and of the digits and with padding, character literals, a sign) x 6 expression forms around the literal x 9 operand positions: the encoded value must be the reference value modulo the field width",
		Bounds: map[string]any{"literals": len(lits), "forms": forms, "positions": positions},
		Build: func(c *core.Chooser) *core.Case {
			l := lits[c.Pick("lit", len(lits))]
			f := forms[c.Pick("form", len(forms))]
			pos := positions[c.Pick("pos", len(positions))]
			e := strings.ReplaceAll(f, "{}", l.text)
			var want int64
			switch f {
			case "{}", "({})":
				want = l.val
			case "{}+1":
				want = l.val + 1
			case "2*{}":
				want = 2 * l.val
			case "{}/2":
				want = l.val / 2
			case "1+{}*2":
				want = 1 + l.val*2
			}
			if pos == "RESB" && (want < 0 || want > 4096) {
				return nil
			}
			var src string
			switch pos {
			case "DB", "DW", "DD":
				src = sentinelLine(0) + "\t" + pos + " " + e + "\n" + sentinelLine(1)
			case "MOV AL", "MOV EAX", "ADD CX":
				src = sentinelLine(0) + "\t" + pos + "," + e + "\n" + sentinelLine(1)
			case "[BX+e]":
				src = sentinelLine(0) + "\tMOV AX,[BX+" + e + "]\n" + sentinelLine(1)
			case "RESB":
				src = sentinelLine(0) + "\tRESB " + e + "\n" + sentinelLine(1)
			case "EQU":
				src = "X EQU " + e + "\n" + sentinelLine(0) + "\tDD X\n" + sentinelLine(1)
			}
			return &core.Case{
				Key:  pos + " | " + e,
				Feat: feat("pos", "spelling_"+pos, "lit", l.text, "form", f),
				Srcs: []string{src},
				Judge: func(rs []*core.Result) core.Verdict {
					r := rs[0]
					v := core.Verdict{}
					if core.ReportsError(r, nil) {
						v.Outcome = "diagnosed"
						v.Fails = []core.Fail{{Facet: "value", Dev: "refused", Detail: errSummary(r)}}
						return v
					}
					v.Outcome, v.Nontrivial = "assembled", true
					reg, ok := between(r.Out, 0, 1)
					if !ok {
						v.Fails = []core.Fail{{Facet: "layout", Dev: "sentinels_lost", Detail: hexs(r.Out)}}
						return v
					}
					fail := func(dev, detail string) {
						v.Fails = append(v.Fails, core.Fail{Facet: "value", Dev: dev, Detail: fmt.Sprintf("%s %s: %s (reference value %d, bytes %x)", pos, e, detail, want, reg)})
					}
					var got int64
					width := 32
					switch pos {
					case "DB":
						width = 8
						if len(reg) != 1 {
							fail("length", "expected 1 byte")
							return v
						}
						got = rdle(reg)
					case "DW":
						width = 16
						if len(reg) != 2 {
							fail("length", "expected 2 bytes")
							return v
						}
						got = rdle(reg)
					case "DD", "EQU":
						if len(reg) != 4 {
							fail("length", "expected 4 bytes")
							return v
						}
						got = rdle(reg)
					case "RESB":
						if int64(len(reg)) != want {
							fail("length", fmt.Sprintf("reserved %d bytes", len(reg)))
						}
						return v
					default:
						in, err := x86ref.Decode(reg, 16)
						if err != nil || in.Len != len(reg) {
							fail("undecodable", fmt.Sprint(err))
							return v
						}
						found := false
						for _, o := range in.Ops {
							if o.Kind == "imm" {
								got, width, found = o.Imm, o.Size, true
							} else if o.Kind == "mem" {
								got, width, found = o.Mem.Disp, o.Mem.AddrSize, true
							}
						}
						if !found {
							fail("no_value_field", in.String())
							return v
						}
					}
					mask := int64(1)<<uint(width) - 1
					if (got^want)&mask != 0 {
						fail("wrong_value", fmt.Sprintf("encoded %#x, want %#x (mod 2^%d)", got&mask, want&mask, width))
					}
					return v
				},
			}
		},
	}
}

func init() {
	register(&Property{
		ID: "C06",
		Scenarios: func(tier string) []*core.Scenario {
			lq := []int64{0, 1, -1, 7, 255, 0x10, 0x7fffffff, 3, 0x80000000, 0xfffff000}
			if tier == "thorough" {
				return []*core.Scenario{c06Trees(2, lq, "trees_le2"), c06Trees(3, []int64{0, 1, -1, 7, 255}, "trees_le3"), c06Positions(lq), c06Pairs(), c06Spellings(), c06Scale()}
			}
			return []*core.Scenario{c06Trees(2, lq, "trees_le2"), c06Positions(lq), c06Pairs(), c06Spellings(), c06Scale()}
		},
		Assumptions: []string{
			"reference semantics: arbitrary-precision integers, * / % bind tighter than + -, equal precedence associates left to right, / truncates toward zero, % takes the sign of the dividend; an expression whose value or an intermediate value leaves int64 is not judged",
			"DD emits the low 32 bits of the value (C05)",
			"an expression with a zero divisor must be diagnosed",
		},
	})
}
