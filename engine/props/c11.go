package props

import (
	"bytes"
	"fmt"
	"strings"

	"verifengine/core"
)

// C11 — EQU names are transparent abbreviations.

type c11Prog struct {
	name string
	tmpl string     // {0}..{3} are literal sites
	vals [][4]int64 // value sets (on both sides of encoding boundaries)
}

var c11Progs = []c11Prog{
	{"imm_alu", "\tMOV AX,{0}\n\tADD CX,{1}\n\tCMP AL,{2}\n\tSUB ECX,{3}\n", [][4]int64{{0x1234, 127, 1, 128}, {0, 128, 0xff, 127}}},
	{"disp", "\tMOV AX,[BX+{0}]\n\tMOV [SI+{1}],CL\n\tMOV EAX,[EBX+{2}]\n\tMOV BYTE [{3}],8\n", [][4]int64{{127, 4, 16, 0x0ff0}, {128, 0x100, 0x100, 0x7c00}}},
	{"data", "\tDB {0},{1}\n\tDW {2}\n\tDD {3}\n\tDB 0x55\n", [][4]int64{{1, 255, 0x1234, 0x12345678}, {0, 0x41, 0xffff, 0xffffffff}}},
	{"layout", "\tORG {0}\n\tDB 1,2,3\n\tRESB {1}\n\tALIGNB {2}\nhere:\n\tDW here\n\tRESB {3}-$\n\tDB 0xAA\n", [][4]int64{{0x7c00, 5, 16, 0x7c40}, {0xc200, 18, 4, 0xc230}}},
	{"misc", "\tINT {0}\n\tIN AL,{1}\n\tSHL AX,{2}\n\tPUSH {3}\n", [][4]int64{{0x10, 0x60, 1, 127}, {0x13, 0x64, 4, 128}}},
	{"reuse_mul", "\tMOV AX,{0}*512\n\tMOV CX,{0}\n\tMOV AL,[BX+{0}]\n\tDB {0},{1}/9,{1}%5,{1}\n\tMOV DX,{2}*2+{2}\n\tDW {2},{3}/2,{3}\n", [][4]int64{{18, 18, 3, 0x1234}, {1, 255, 127, 0xffff}}},
	{"high_values", "\tADD EAX,{0}\n\tAND EBX,{1}\n\tMOV ECX,[EBX+{2}]\n\tDD {3}/0x1000\n\tCMP EDX,{0}\n", [][4]int64{{0xffffff80, 0x80000000, 0xfffffffc, 0xe0000000}, {0xffffffff, 0xffff0000, 0x80000000, 0xfffff000}}},
	{"reuse_add", "\tMOV AX,{0}+1\n\tMOV BX,{0}\n\tDW {0}-1,{0}\n\tMOV CX,[BX+{1}+2]\n\tMOV DX,[SI+{1}]\n\tDB {2}+{2},{2}\n\tADD CX,{3}-1\n\tADD DX,{3}\n", [][4]int64{{16, 4, 3, 128}, {0x1ff, 126, 127, 129}}},
	{"scaled_index", "[BITS 32]\n\tMOV EAX,[EBX+ECX*{0}]\n\tMOV EDX,[EBX+ECX*{0}+{1}]\n\tMOV AL,[ESI+EDI*{2}]\n\tMOV ECX,[EBP+EDX*{0}+{3}*2]\n\tMOV [EAX*{2}+{1}],BL\n\tADD EAX,[{3}+EBX+ESI*{0}]\n", [][4]int64{{4, 8, 2, 6}, {8, 0x100, 1, 3}}},
	{"far_out", "\tJMP DWORD {0}*8:{1}\n\tOUT {2},AL\n\tMOV EDX,{3}\n", [][4]int64{{2, 0x1b, 0x21, 0x000a0000}, {1, 0x280000, 0xa1, 1}}},
}

func c11Lit(v int64) string {
	if v >= 10 {
		return fmt.Sprintf("0x%x", v)
	}
	return fmt.Sprint(v)
}

func c11Fill(tmpl string, rep [4]string) string {
	s := tmpl
	for i := 0; i < 4; i++ {
		s = strings.ReplaceAll(s, fmt.Sprintf("{%d}", i), rep[i])
	}
	return s
}

func c11Scenario(tier string) *core.Scenario {
	depths := 4
	return &core.Scenario{
		Name: "equ_abstraction", Bound: -1,
		Rule:   "6 base programs x 2 value sets x every non-empty subset of their literal sites replaced by EQU names x chain depth 1..4 x body form {literal, parenthesised expression, expression over another name} x placement {all definitions first, each just before its use}; output must be byte-identical to the fully inlined program; non-trivial = both variants assembled and emitted >= 1 byte",
		Bounds: map[string]any{"programs": len(c11Progs), "value_sets": 2, "subsets": 15, "chain_depth": depths, "bodies": 3, "placements": 2},
		Build: func(c *core.Chooser) *core.Case {
			p := c11Progs[c.Pick("prog", len(c11Progs))]
			vs := p.vals[c.Pick("vals", len(p.vals))]
			nsites := 0
			for i := 0; i < 4; i++ {
				if strings.Contains(p.tmpl, fmt.Sprintf("{%d}", i)) {
					nsites = i + 1
				}
			}
			subset := 1 + c.Pick("subset", (1<<uint(nsites))-1)
			depth := 1 + c.Pick("depth", depths)
			body := c.Pick("body", 3)
			style := c.Pick("name_style", 3)
			placement := c.Pick("placement", 3) // 0 all first, 1 each just before its use, 2 all first but in REVERSE dependency order
			early := placement != 1
			var inl, abs [4]string
			var defs [4]string
			for i := 0; i < nsites; i++ {
				inl[i] = c11Lit(vs[i])
				abs[i] = inl[i]
				if subset&(1<<uint(i)) == 0 {
					continue
				}
				// chain: N_i_1 EQU body ; N_i_2 EQU N_i_1 ; ... ; use N_i_depth
				var lines []string
				base := []string{"K%d", "k%d", "Kx%d_v"}[style] // upper case (the style of the book), lower case, mixed
				base = fmt.Sprintf(base, i)
				switch body {
				case 0:
					lines = append(lines, fmt.Sprintf("%s_1 EQU %s\n", base, c11Lit(vs[i])))
				case 1:
					lines = append(lines, fmt.Sprintf("%s_1 EQU (%s-1+1)\n", base, c11Lit(vs[i]+0)))
				case 2:
					lines = append(lines, fmt.Sprintf("%s_0 EQU %s+1\n", base, c11Lit(vs[i])), fmt.Sprintf("%s_1 EQU %s_0-1\n", base, base))
				}
				for k := 2; k <= depth; k++ {
					lines = append(lines, fmt.Sprintf("%s_%d EQU %s_%d\n", base, k, base, k-1))
				}
				if placement == 2 { // a name may be used in an EQU body before the line that defines it
					for a, b := 0, len(lines)-1; a < b; a, b = a+1, b-1 {
						lines[a], lines[b] = lines[b], lines[a]
					}
				}
				defs[i] = strings.Join(lines, "")
				abs[i] = fmt.Sprintf("%s_%d", base, depth)
			}
			inlined := c11Fill(p.tmpl, inl)
			var abstracted string
			if early {
				abstracted = defs[0] + defs[1] + defs[2] + defs[3] + c11Fill(p.tmpl, abs)
			} else {
				// each definition block just before the line that uses it
				lines := strings.SplitAfter(p.tmpl, "\n")
				var sb strings.Builder
				done := [4]bool{}
				for _, ln := range lines {
					for i := 0; i < nsites; i++ {
						if !done[i] && strings.Contains(ln, fmt.Sprintf("{%d}", i)) {
							sb.WriteString(defs[i])
							done[i] = true
						}
					}
					sb.WriteString(ln)
				}
				abstracted = c11Fill(sb.String(), abs)
			}
			return &core.Case{
				Key:       fmt.Sprintf("%s vals=%v subset=%04b depth=%d body=%d early=%v", p.name, vs, subset, depth, body, early) + []string{"", " names=lower", " names=Mixed"}[style],
				Feat:      feat("prog", p.name, "subset", fmt.Sprintf("%04b", subset), "depth", fmt.Sprint(depth), "body", fmt.Sprint(body), "early", fmt.Sprint(early), "name_style", fmt.Sprint(style)),
				FreshRefs: true, Srcs: []string{abstracted, inlined},
				Judge: func(rs []*core.Result) core.Verdict {
					v := core.Verdict{}
					ea, ei := core.ReportsError(rs[0], nil), core.ReportsError(rs[1], nil)
					if ei {
						v.Outcome = "inlined_diagnosed"
						return v
					}
					if ea {
						v.Outcome = "abstracted_diagnosed"
						v.Fails = []core.Fail{{Facet: "equ", Dev: "diagnosed_only_with_names", Detail: errSummary(rs[0])}}
						return v
					}
					v.Outcome = "assembled"
					v.Nontrivial = len(rs[1].Out) > 0
					if !bytes.Equal(rs[0].Out, rs[1].Out) {
						dev := "bytes_differ"
						if len(rs[0].Out) != len(rs[1].Out) {
							dev = fmt.Sprintf("length:%+d", len(rs[0].Out)-len(rs[1].Out))
						}
						v.Fails = []core.Fail{{Facet: "equ", Dev: dev, Detail: fmt.Sprintf("with names %x, inlined %x", rs[0].Out, rs[1].Out)}}
					}
					return v
				},
			}
		},
	}
}

// c11Special: hand-written (with names, inlined) pairs for situations the site templates cannot
// express: an EQU that captures `$`, one-letter names that are substrings of register names and
// keywords, a name that is a substring of a label.
func c11Special() *core.Scenario {
	pairs := [][2]string{
		{"\tDB 1,2,3\nHERE EQU $\n\tDB 4\n\tDW HERE\n\tMOV SI,HERE\n\tRESB HERE+0x20-$\n\tDB 5\n", "\tDB 1,2,3\n\tDB 4\n\tDW {O}+3\n\tMOV SI,{O}+3\n\tRESB {O}+3+0x20-$\n\tDB 5\n"},
		{"TOP EQU $\n\tMOV AX,TOP\n\tDB 9\nMID EQU $\n\tDW TOP,MID\n\tMOV BX,MID\n", "\tMOV AX,{O}\n\tDB 9\n\tDW {O},{O}+4\n\tMOV BX,{O}+4\n"},
		{"X EQU 320\nY EQU 200\nD EQU 5\nS EQU 2\n\tMOV AX,X\n\tMOV BX,Y\n\tMOV DWORD [EBX],D\n\tMOV SI,S\n\tADD AX,BX\n\tMOV DX,X+Y\n", "\tMOV AX,320\n\tMOV BX,200\n\tMOV DWORD [EBX],5\n\tMOV SI,2\n\tADD AX,BX\n\tMOV DX,320+200\n"},
		{"LEN EQU 4\nMSGLEN:\n\tDB LEN\n\tMOV CX,LEN\n\tMOV BX,MSGLEN\n\tJMP MSGLEN\n", "MSGLEN:\n\tDB 4\n\tMOV CX,4\n\tMOV BX,MSGLEN\n\tJMP MSGLEN\n"},
		{"A EQU B+1\nB EQU C*2\nC EQU 3\n\tMOV AX,A\n\tDB A,B,C\n\tRESB A\n\tADD CX,A\n", "\tMOV AX,7\n\tDB 7,6,3\n\tRESB 7\n\tADD CX,7\n"},
		// string-valued names (also one whose text contains its own name), character literals, lower-case and dotted names
		{"OEMNAME EQU \"HARIBOTE\"\nVOL EQU \"HELLO-OS   \"\nOEM EQU \"OEM name\"\n\tDB OEMNAME\n\tDW 512\n\tDB VOL,0\n\tDB OEM\n\tDB OEMNAME,VOL\n", "\tDB \"HARIBOTE\"\n\tDW 512\n\tDB \"HELLO-OS   \",0\n\tDB \"OEM name\"\n\tDB \"HARIBOTE\",\"HELLO-OS   \"\n"},
		{"CR EQU 0x0d\nlf EQU 0x0a\nStar EQU '*'\n.pad EQU 3\ncfg.size EQU .pad*2\n\tMOV AL,Star\n\tDB CR,lf,Star\n\tRESB .pad\n\tDW cfg.size\n\tCMP AL,Star+1\n", "\tMOV AL,'*'\n\tDB 0x0d,0x0a,'*'\n\tRESB 3\n\tDW 6\n\tCMP AL,'*'+1\n"},
		// a name defined twice: each use sees the definition that precedes it
		{"NSEC EQU 3\nSTEP EQU 2\nSPAN EQU STEP*4\n\tMOV CX,NSEC\n\tMOV AL,[SI+NSEC-1]\n\tDB NSEC,STEP\n\tRESB NSEC\nNSEC EQU 5\n\tMOV CX,NSEC\n\tDB NSEC,SPAN\n\tRESB NSEC\n", "\tMOV CX,3\n\tMOV AL,[SI+3-1]\n\tDB 3,2\n\tRESB 3\n\tMOV CX,5\n\tDB 5,8\n\tRESB 5\n"},
		// the counter idiom: a name redefined in terms of its previous value
		{"SLOT EQU 0\n\tDB SLOT\nSLOT EQU SLOT+1\n\tDB SLOT\n\tMOV AX,SLOT\nSLOT EQU SLOT*2+2\n\tDW SLOT\n\tRESB SLOT\n", "\tDB 0\n\tDB 0+1\n\tMOV AX,0+1\n\tDW (0+1)*2+2\n\tRESB (0+1)*2+2\n"},
		{"E EQU 1\nAX2 EQU 2\n\tMOV AX,E\n\tMOV EAX,AX2\n\tMOV ES,AX\n\tDB E,AX2\n", "\tMOV AX,1\n\tMOV EAX,2\n\tMOV ES,AX\n\tDB 1,2\n"},
	}
	return &core.Scenario{
		Name: "equ_special", Bound: -1,
		Rule:   "10 hand-written program pairs (with EQU names / inlined) x ORG {none, 0x7c00} x BITS: EQU capturing $, names that are substrings of registers, keywords or labels, names used in EQU bodies before their own definition, string-valued and character-valued names, lower-case and dotted names",
		Bounds: map[string]any{"pairs": len(pairs)},
		Build: func(c *core.Chooser) *core.Case {
			pi := c.Pick("pair", len(pairs))
			org := c.Pick("org", 2)
			relax := c.Bool("behind_grown_branch") // a JMP that does not reach with rel8 in front: pass 1 runs twice
			hdr, o := "", "0"
			if org == 1 {
				hdr, o = "\tORG 0x7c00\n", "0x7c00"
			}
			if relax {
				if strings.Contains(pairs[pi][1], "{O}") {
					return nil // (the $-capturing pairs have their offsets written out; they are covered in C06 EQU_dollar_relaxed)
				}
				hdr += "\tJMP rlx_over\n\tRESB 200\nrlx_over:\n"
			}
			a := hdr + pairs[pi][0]
			b := hdr + strings.ReplaceAll(pairs[pi][1], "{O}", o)
			return &core.Case{
				Key:       fmt.Sprintf("special %d org=%s", pi, o) + map[bool]string{true: " behind a grown branch", false: ""}[relax],
				Feat:      feat("pair", fmt.Sprint(pi), "org", o),
				FreshRefs: true, Srcs: []string{a, b},
				Judge: func(rs []*core.Result) core.Verdict {
					v := core.Verdict{}
					if core.ReportsError(rs[1], nil) {
						v.Outcome = "inlined_diagnosed"
						v.Fails = []core.Fail{{Facet: "harness", Dev: "inlined_program_rejected", Detail: errSummary(rs[1])}}
						return v
					}
					v.Outcome = "assembled"
					v.Nontrivial = true
					if core.ReportsError(rs[0], nil) {
						v.Fails = []core.Fail{{Facet: "equ", Dev: "diagnosed_only_with_names", Detail: errSummary(rs[0])}}
					} else if !bytes.Equal(rs[0].Out, rs[1].Out) {
						v.Fails = []core.Fail{{Facet: "equ", Dev: "bytes_differ", Detail: fmt.Sprintf("with names %x, inlined %x", rs[0].Out, rs[1].Out)}}
					}
					return v
				},
			}
		},
	}
}

func init() {
	register(&Property{
		ID: "C11",
		Scenarios: func(tier string) []*core.Scenario {
			return []*core.Scenario{c11Scenario(tier), c11Special(), c11AliasScenario()}
		},
		Assumptions: []string{
			"differential oracle: the fully inlined program (literals written in place) is the reference; what it should assemble to is the subject of C01-C06",
			"cases in which the inlined program itself is diagnosed are not judged",
		},
	})
}
