package props

import (
	"bytes"
	"fmt"
	"strings"
	"time"

	"verifengine/core"
)

// C14 — statements assemble independently of their neighbours.

func c14Pool() []string {
	var out []string
	for _, k := range c03Kinds() {
		t := k.text
		if strings.Contains(t, "after") || strings.Contains(t, "back") || strings.Contains(t, "$") || strings.HasPrefix(t, "ALIGNB") ||
			strings.HasSuffix(t, ":") || strings.Contains(t, " EQU ") || strings.HasPrefix(t, "GLOBAL") || strings.HasPrefix(t, "EXTERN") {
			continue
		}
		out = append(out, t)
	}
	// numeric-target branches are position dependent; far jump is not
	var res []string
	for _, t := range out {
		if (strings.HasPrefix(t, "JMP 0x") || strings.HasPrefix(t, "CALL 0x")) && !strings.Contains(t, ":") {
			continue
		}
		res = append(res, t)
	}
	return res
}

func c14Prog(mode int, stmts []string) string {
	var sb strings.Builder
	if mode == 32 {
		sb.WriteString("[BITS 32]\n")
	}
	for _, s := range stmts {
		sb.WriteString(stmtLine(s))
	}
	return sb.String()
}

func c14Judge(parts int) func(rs []*core.Result) core.Verdict {
	return func(rs []*core.Result) core.Verdict {
		v := core.Verdict{}
		// rs[0] = combined, rs[1..parts] = singles, rs[parts+1] = baseline (mode header only)
		base := rs[parts+1]
		anyErr := false
		for i := 1; i <= parts; i++ {
			if core.ReportsError(rs[i], base) {
				anyErr = true
			}
		}
		if anyErr {
			v.Outcome = "a_part_is_diagnosed"
			if !core.ReportsError(rs[0], base) {
				v.Fails = []core.Fail{{Facet: "concat", Dev: "diagnostic_lost_in_context", Detail: "a statement that is diagnosed alone assembles silently next to others"}}
			}
			return v
		}
		v.Outcome = "assembled"
		var want []byte
		for i := 1; i <= parts; i++ {
			want = append(want, rs[i].Out...)
		}
		v.Nontrivial = len(want) > 0
		if core.ReportsError(rs[0], base) {
			v.Fails = []core.Fail{{Facet: "concat", Dev: "diagnosed_only_in_context", Detail: errSummary(rs[0])}}
			return v
		}
		if !bytes.Equal(rs[0].Out, want) {
			dev := "bytes_differ"
			if len(rs[0].Out) != len(want) {
				dev = fmt.Sprintf("length:%+d", len(rs[0].Out)-len(want))
			}
			v.Fails = []core.Fail{{Facet: "concat", Dev: dev, Detail: fmt.Sprintf("together %x, separately %x", rs[0].Out, want)}}
		}
		return v
	}
}

func c14Scenarios(tier string) []*core.Scenario {
	pool := c14Pool()
	var scs []*core.Scenario
	scs = append(scs, &core.Scenario{
		Name: "pairs", Bound: -1,
		Rule:   fmt.Sprintf("all ordered pairs of %d label-free, position-independent statements (one per form/size class) x BITS: out(A;B) must equal out(A)||out(B); non-trivial = both assemble and emit >= 1 byte", len(pool)),
		Bounds: map[string]any{"pool": len(pool), "modes": []int{16, 32}},
		Build: func(c *core.Chooser) *core.Case {
			mode := []int{16, 32}[c.Pick("mode", 2)]
			a := pool[c.Pick("a", len(pool))]
			b := pool[c.Pick("b", len(pool))]
			return &core.Case{
				// the pair itself runs in a fresh process too: always in the thorough tier, in the quick tier when both
				// statements have a memory operand (the forms that share encoder state)
				FreshAll:  tier == "thorough" || (strings.Contains(a, "[") && strings.Contains(b, "[")),
				Key:       fmt.Sprintf("BITS %d|%s ; %s", mode, a, b),
				Feat:      feat("mode", fmt.Sprint(mode), "a", a, "b", b),
				FreshRefs: true, Srcs: []string{c14Prog(mode, []string{a, b}), c14Prog(mode, []string{a}), c14Prog(mode, []string{b}), c14Prog(mode, nil)},
				Judge: c14Judge(2),
			}
		}})
	if true { // both tiers
		var sub []string
		for i := 0; i < len(pool); i += len(pool)/20 + 1 {
			sub = append(sub, pool[i])
		}
		scs = append(scs, &core.Scenario{
			Name: "triples", Bound: -1,
			Rule:   fmt.Sprintf("all ordered triples over a %d-statement sub-pool x BITS", len(sub)),
			Bounds: map[string]any{"subpool": sub},
			Build: func(c *core.Chooser) *core.Case {
				mode := []int{16, 32}[c.Pick("mode", 2)]
				a, b, d := sub[c.Pick("a", len(sub))], sub[c.Pick("b", len(sub))], sub[c.Pick("c", len(sub))]
				return &core.Case{
					Key:       fmt.Sprintf("BITS %d|%s ; %s ; %s", mode, a, b, d),
					Feat:      feat("mode", fmt.Sprint(mode), "a", a, "b", b, "c", d),
					FreshRefs: true, Srcs: []string{c14Prog(mode, []string{a, b, d}), c14Prog(mode, []string{a}), c14Prog(mode, []string{b}), c14Prog(mode, []string{d}), c14Prog(mode, nil)},
					Judge: c14Judge(3),
				}
			}})
	}
	// the same law inside the .text section of a WCOFF object (the object writer sees the END of the code: whatever
	// it does with the last statements - trailing reserved space, padding - must not depend on what follows)
	{
		cpool := []string{"RESB 8", "RESB 5000", "DB 1", "DW 0x1234", "HLT", "DB 0,0,0,0", "DD 0"}
		for i := 0; i < len(pool); i += len(pool)/16 + 1 {
			cpool = append(cpool, pool[i])
		}
		coffProg := func(stmts []string) string {
			return "[FORMAT \"WCOFF\"]\n" + c14Prog(32, nil) + "[FILE \"pair.nas\"]\n[SECTION .text]\n" + c14Prog(16, stmts)
		}
		scs = append(scs, &core.Scenario{
			Name: "pairs_in_coff", Bound: -1,
			Rule:   fmt.Sprintf("all ordered pairs of %d statements (RESB small and large, data, instructions) as the whole .text section of a WCOFF object: text(A;B) must equal text(A)||text(B)", len(cpool)),
			Bounds: map[string]any{"pool": cpool},
			Build: func(c *core.Chooser) *core.Case {
				a := cpool[c.Pick("a", len(cpool))]
				b := cpool[c.Pick("b", len(cpool))]
				inner := c14Judge(2)
				return &core.Case{
					Key:       fmt.Sprintf("WCOFF|%s ; %s", a, b),
					Feat:      feat("mode", "coff", "a", a, "b", b),
					FreshRefs: true, Srcs: []string{coffProg([]string{a, b}), coffProg([]string{a}), coffProg([]string{b}), coffProg(nil)},
					Judge: func(rs []*core.Result) core.Verdict {
						cp := make([]*core.Result, len(rs))
						for i, r := range rs {
							x := *r
							if !core.HardFailure(r) {
								f := parseCOFF(r.Out)
								if len(f.Problems) > 0 || len(f.Sections) < 1 {
									return core.Verdict{Outcome: "bad_object", Fails: []core.Fail{{Facet: "concat", Dev: "object_unreadable", Detail: strings.Join(f.Problems, "; ")}}}
								}
								x.Out = f.sectionData(r.Out, 0)
							}
							cp[i] = &x
						}
						return inner(cp)
					},
				}
			}})
	}
	// sequences: A and B are short statement SEQUENCES; B may begin with a mode directive (it then carries its own mode,
	// so out(A;B) = out(A)||out(B) still has to hold), A may be a run of data directives, instructions or both
	{
		seqA := []string{"DB 0x11\nDB 0x22", "DW 1\nDW 2\nDW 3", "DD 1\nDD 2", "DB 1\nDW 2\nDD 3", "RESB 2\nRESB 3", "MOV AX,1\nMOV BX,2", "DB 1\nMOV AX,1\nDB 2\nDB 3", "HLT", "DB \"ab\"\nDB \"cd\",0",
			"[BITS 32]\nMOV EAX,1\n[BITS 16]", "[BITS 32]\nDB 1\nDB 2\n[BITS 16]\nDB 3\nDB 4"}
		seqB := []string{"[BITS 32]\nMOV EAX,1\nADD ECX,[EBX+4]", "[BITS 32]\nDB 9\nMOV AX,1", "[BITS 16]\nMOV EAX,1", "[BITS 32]\n[BITS 16]\nMOV AX,[BX+2]", "MOV AX,1\n[BITS 32]\nMOV AX,1\n[BITS 16]\nMOV AX,1",
			"[BITS 32]\nPUSH 0x1234\nDB 1\nDB 2\n[BITS 16]\nPUSH 0x1234", "MOV EAX,[ESI]", "DB 5\nDB 6\n[BITS 32]\nMOV WORD [0x0ff0],1"}
		prog := func(parts ...string) string {
			var sb strings.Builder
			for _, p := range parts {
				for _, ln := range strings.Split(p, "\n") {
					sb.WriteString(stmtLine(ln))
				}
				sb.WriteString("[BITS 16]\n") // every part is followed by a return to the initial mode (adds nothing to the output)
			}
			return sb.String()
		}
		scs = append(scs, &core.Scenario{
			Name: "sequence_pairs", Bound: -1,
			Rule:   fmt.Sprintf("all ordered pairs and all (A,B,A') triples of %d + %d statement sequences (runs of data directives, instructions, sequences that switch mode and switch back): out(A;B[;A']) must equal the concatenation of the parts assembled alone", len(seqA), len(seqB)),
			Bounds: map[string]any{"sequences_a": seqA, "sequences_b": seqB},
			Build: func(c *core.Chooser) *core.Case {
				a := seqA[c.Pick("a", len(seqA))]
				b := seqB[c.Pick("b", len(seqB))]
				third := c.Pick("a2", len(seqA)+1)
				parts := []string{a, b}
				if third > 0 {
					parts = append(parts, seqA[third-1])
				}
				srcs := []string{prog(parts...)}
				for _, p := range parts {
					srcs = append(srcs, prog(p))
				}
				srcs = append(srcs, prog())
				return &core.Case{
					Key:       "seq|" + strings.ReplaceAll(strings.Join(parts, " || "), "\n", " ; "),
					Feat:      feat("mode", "seq", "a", a, "b", b),
					FreshRefs: true, Srcs: srcs,
					Judge: c14Judge(len(parts)),
				}
			}})
	}
	equDefs := "FOO EQU 16\nBASE EQU 0x00100000\nSMALL EQU 3\n"
	equStmts := []string{"MOV AX,FOO+1", "MOV BX,FOO", "DW FOO-1,FOO", "MOV CX,[BX+FOO]", "ADD DX,FOO*2", "DB FOO", "MOV EDI,BASE+512", "DD BASE", "MOV AL,FOO%SMALL", "DB SMALL+SMALL,SMALL",
		"MOV ESI,BASE", "SUB CX,FOO-SMALL", "MOV BYTE [FOO],SMALL", "DD BASE/FOO,BASE-1", "RESB SMALL", "MOV SI,SMALL*FOO+1"}
	scs = append(scs, &core.Scenario{
		Name: "pairs_using_equ", Bound: -1,
		Rule:   "all ordered pairs of 16 statements that use three EQU names (as first term of a sum, first factor of a product, alone, inside a memory operand): with the definitions in front, out(A;B) must equal out(A)||out(B); x BITS",
		Bounds: map[string]any{"statements": len(equStmts)},
		Build: func(c *core.Chooser) *core.Case {
			mode := []int{16, 32}[c.Pick("mode", 2)]
			a := equStmts[c.Pick("a", len(equStmts))]
			b := equStmts[c.Pick("b", len(equStmts))]
			pr := func(st []string) string {
				x := c14Prog(mode, st)
				if mode == 32 {
					return strings.Replace(x, "[BITS 32]\n", "[BITS 32]\n"+equDefs, 1)
				}
				return equDefs + x
			}
			return &core.Case{
				Key:       fmt.Sprintf("BITS %d|EQUs|%s ; %s", mode, a, b),
				Feat:      feat("mode", fmt.Sprint(mode), "a", a, "b", b),
				FreshRefs: true, Srcs: []string{pr([]string{a, b}), pr([]string{a}), pr([]string{b}), pr(nil)},
				Judge: c14Judge(2),
			}
		}})
	// single insertions / deletions in longer programs
	long := [][]string{
		{"MOV AX,0", "MOV SS,AX", "MOV SP,0x7c00", "MOV DS,AX", "MOV ES,AX", "MOV SI,0x7c50", "MOV AL,[SI]", "ADD SI,1", "CMP AL,0", "MOV AH,0x0e", "MOV BX,15", "INT 0x10", "HLT"},
		{"MOV EAX,[ESP+4]", "MOV ECX,[ESP+8]", "OUT DX,AL", "IN EAX,DX", "AND EAX,0x7fffffff", "OR EAX,1", "MOV CR0,EAX", "PUSH EAX", "POP EAX", "RET", `DB "abc",0`, "RESB 8", "DD 0x12345678"},
	}
	ins := pool
	if tier != "thorough" {
		ins = nil
		for i := 0; i < len(pool); i += 4 {
			ins = append(ins, pool[i])
		}
	}
	scs = append(scs, &core.Scenario{
		Name: "insert_delete", Bound: -1,
		Rule:   "every single insertion of a pool statement at every position of two 13-statement programs, and every single deletion, x BITS: the output must change by exactly the inserted/deleted statement's bytes",
		Bounds: map[string]any{"programs": 2, "inserted": len(ins)},
		Build: func(c *core.Chooser) *core.Case {
			mode := []int{16, 32}[c.Pick("mode", 2)]
			pi := c.Pick("prog", 2)
			lp := long[pi]
			if pi == 0 && mode == 32 {
				return nil // the boot-sector program uses 16-bit addressing
			}
			pos := c.Pick("pos", len(lp)+1)
			op := c.Pick("op", 1+len(ins)) // 0 = delete statement at pos
			if op == 0 {
				if pos == len(lp) {
					return nil
				}
				rest := append(append([]string{}, lp[:pos]...), lp[pos+1:]...)
				// deleting S from P: out(P) = out(P[:pos]) || out(S) || out(P[pos+1:]) is checked as a 3-part concatenation
				return &core.Case{
					Key:       fmt.Sprintf("BITS %d|prog %v delete #%d (%s)", mode, lp[0], pos, lp[pos]),
					Feat:      feat("mode", fmt.Sprint(mode), "op", "delete", "stmt", lp[pos], "pos", fmt.Sprint(pos)),
					FreshRefs: true, Srcs: []string{c14Prog(mode, lp), c14Prog(mode, lp[:pos]), c14Prog(mode, []string{lp[pos]}), c14Prog(mode, lp[pos+1:]), c14Prog(mode, nil)},
					Judge: func(rs []*core.Result) core.Verdict {
						v := c14Judge(3)(rs)
						_ = rest
						return v
					},
				}
			}
			s := ins[op-1]
			withIns := append(append(append([]string{}, lp[:pos]...), s), lp[pos:]...)
			return &core.Case{
				Key:       fmt.Sprintf("BITS %d|prog %v insert %q at %d", mode, lp[0], s, pos),
				Feat:      feat("mode", fmt.Sprint(mode), "op", "insert", "stmt", s, "pos", fmt.Sprint(pos)),
				FreshRefs: true, Srcs: []string{c14Prog(mode, withIns), c14Prog(mode, lp[:pos]), c14Prog(mode, []string{s}), c14Prog(mode, lp[pos:]), c14Prog(mode, nil)},
				Judge: c14Judge(3),
			}
		}})
	// programs that switch mode: inserting a mode-independent one-byte statement anywhere - also between a directive
	// and the next directive - changes the output by exactly that byte
	modeProgs := [][]string{
		{"MOV AX,1", "[BITS 32]", "[BITS 16]", "MOV AX,2", "MOV EAX,3", "[BITS 32]", "ADD ECX,0x100", "PUSH 0x100", "[BITS 16]", "MOV CX,[BX+2]"},
		{"[BITS 32]", "MOV EAX,1", "MOV AX,1", "[BITS 16]", "[BITS 32]", "[BITS 16]", "MOV EAX,1", "AND AX,0x00ff", "[BITS 32]", "[BITS 32]", "IMUL ECX,4"},
		{"[BITS 16]", "[INSTRSET \"i486p\"]", "[BITS 32]", "MOV EAX,1", "lbl1:", "[BITS 16]", "X1 EQU 5", "[BITS 32]", "MOV AX,X1", "[BITS 16]", "MOV AX,X1"},
	}
	oneByte := []struct {
		text string
		b    byte
	}{{"HLT", 0xF4}, {"NOP", 0x90}, {"DB 0x90", 0x90}, {"CLI", 0xFA}}
	scs = append(scs, &core.Scenario{
		Name: "insert_across_mode_switches", Bound: -1,
		Rule:   "3 programs that switch between [BITS 16] and [BITS 32] (incl. directives directly behind each other) x every position x 4 mode-independent one-byte statements: out(with the statement) must be out(without it) with that one byte inserted at the offset the prefix alone assembles to",
		Bounds: map[string]any{"programs": modeProgs, "inserted": []string{"HLT", "NOP", "DB 0x90", "CLI"}},
		Build: func(c *core.Chooser) *core.Case {
			mp := modeProgs[c.Pick("prog", len(modeProgs))]
			pos := c.Pick("pos", len(mp)+1)
			ob := oneByte[c.Pick("stmt", len(oneByte))]
			with := append(append(append([]string{}, mp[:pos]...), ob.text), mp[pos:]...)
			return &core.Case{
				Key:       fmt.Sprintf("modes|prog %d insert %q at %d", indexOf(modeProgs, mp), ob.text, pos),
				Feat:      feat("op", "insert_modes", "stmt", ob.text, "pos", fmt.Sprint(pos)),
				FreshRefs: true, Srcs: []string{c14Prog(16, with), c14Prog(16, mp), c14Prog(16, mp[:pos])},
				Judge: func(rs []*core.Result) core.Verdict {
					v := core.Verdict{}
					for _, r := range rs {
						if core.ReportsError(r, nil) {
							v.Outcome = "diagnosed"
							v.Fails = []core.Fail{{Facet: "concat", Dev: "refused", Detail: errSummary(r)}}
							return v
						}
					}
					v.Outcome, v.Nontrivial = "assembled", true
					without, off := rs[1].Out, len(rs[2].Out)
					if off > len(without) {
						v.Fails = []core.Fail{{Facet: "concat", Dev: "prefix_longer_than_program", Detail: fmt.Sprintf("prefix %x program %x", rs[2].Out, without)}}
						return v
					}
					want := append(append(append([]byte{}, without[:off]...), ob.b), without[off:]...)
					if !bytes.Equal(rs[0].Out, want) {
						dev := "bytes_differ"
						if len(rs[0].Out) != len(want) {
							dev = fmt.Sprintf("length:%+d", len(rs[0].Out)-len(want))
						}
						v.Fails = []core.Fail{{Facet: "concat", Dev: dev, Detail: fmt.Sprintf("with %q at %d: got %x want %x", ob.text, pos, rs[0].Out, want)}}
					}
					return v
				},
			}
		}})
	return scs
}

func indexOf(all [][]string, one []string) int {
	for i := range all {
		if &all[i][0] == &one[0] {
			return i
		}
	}
	return -1
}

// c14CLI: pairs of statements whose text contains non-ASCII bytes (strings and comments in UTF-8 and in Shift_JIS),
// through the REAL command: what the front end decides about the encoding of the file must not depend on the
// neighbouring statement.
func c14CLI(r *core.Run, tier string) {
	t0 := time.Now()
	p := r.Cfg.Pool
	stmts := []string{
		"\tMOV AL,1\n",
		"\tDB \"caf\u00e9\",0\n",             // UTF-8 string
		"\tDB \"\x93\xfa\x96\x7b\",0\n",      // Shift_JIS string
		"\tHLT ; \x93\xfa\x96\x7b\x8c\xea\n", // Shift_JIS comment
		"\tNOP ; \u65e5\u672c\u8a9e\n",       // UTF-8 comment
		"\tDB \"\xb1\xb2\xb3\"\n",            // half-width katakana (single bytes >= 0x80)
		"\tDB \"plain ascii\"\n\tDW 0x1234\n",
		"\tMOV AX,0x1234 # \x83\x5c\n",        // Shift_JIS character with a 0x5C trail byte in a comment
		"\tMOV BX,2 ; table in doc\\bios\\\n", // an ASCII comment whose last character is a backslash
		"; only a comment \\\n\tMOV CX,3\n",   // a comment LINE ending in a backslash in front of a statement
		"\tDB 1,2, \\\n",                      // a backslash outside a comment: refused alone (then not judged)
	}
	alone := make([]*core.Result, len(stmts))
	for i, s := range stmts {
		alone[i] = p.CLI(s, nil, false)
	}
	var n, nt int64
	for i, a := range stmts {
		for j, b := range stmts {
			both := p.CLI(a+b, nil, false)
			n++
			if alone[i].ExitCode != 0 || alone[j].ExitCode != 0 {
				continue
			}
			nt++
			want := append(append([]byte{}, alone[i].Out...), alone[j].Out...)
			if both.ExitCode != 0 || !bytes.Equal(both.Out, want) {
				dev := "bytes_differ"
				if both.ExitCode != 0 {
					dev = fmt.Sprintf("exit:%d", both.ExitCode)
				} else if len(both.Out) != len(want) {
					dev = fmt.Sprintf("length:%+d", len(both.Out)-len(want))
				}
				r.AddFail("cli_pairs", fmt.Sprintf("cli pair %d ; %d", i, j), map[string]string{"a": fmt.Sprint(i), "b": fmt.Sprint(j)}, []string{a + b, a, b},
					core.Fail{Facet: "cli_concat", Dev: dev, Detail: fmt.Sprintf("real command: out(A;B)=%x, out(A)||out(B)=%x", both.Out, want)})
			}
		}
	}
	r.AddNT("cli_pairs")
	r.AddCustom("cli_pairs", "all ordered pairs of 11 statements with non-ASCII bytes in strings and comments (UTF-8, Shift_JIS double-byte incl. a 0x5C trail byte, half-width katakana) or a backslash as the last character of a comment, each pair and each statement assembled by the REAL command: out(A;B) = out(A)||out(B)",
		map[string]any{"statements": len(stmts)}, n+int64(len(stmts)), n, n+int64(len(stmts)), nt, 1, true, time.Since(t0).Seconds())
}

func init() {
	register(&Property{
		ID:        "C14",
		Custom:    c14CLI,
		Scenarios: c14Scenarios,
		Assumptions: []string{
			"differential oracle: the bytes a statement yields when assembled alone (under the same BITS header) are the reference; what they should be is C01-C05's subject",
			"the pool excludes statements whose bytes legitimately depend on position or symbols ($, ALIGNB, label and numeric-target branches)",
		},
	})
}
