package props

import (
	"fmt"
	"math"
	"strings"

	"verifengine/core"
	"verifengine/x86ref"
)

// C04, scenario interacting_branches: programs with 2 or 3 branches whose spans contain one another, with
// gaps solved so that every span sits within a few bytes of the rel8 boundary. Growing one branch then
// pushes another across the boundary (a cascade needs several rounds of branch sizing), which single-branch
// programs cannot show.

type relaxElem struct {
	branch bool
	idx    int
}

func permutations(n int) [][]int {
	if n == 0 {
		return [][]int{{}}
	}
	var out [][]int
	for _, p := range permutations(n - 1) {
		for i := 0; i <= len(p); i++ {
			q := append(append(append([]int{}, p[:i]...), n-1), p[i:]...)
			out = append(out, q)
		}
	}
	return out
}

func branchMinLen(mn string, mode int) int {
	if mn == "CALL" {
		if mode == 16 {
			return 3
		}
		return 5
	}
	return 2
}

// solveGaps finds non-negative integer gaps g[1..m-1] (g[j] sits between element j-1 and j) such that every
// constraint "sum of g over (lo, hi] == rhs" holds, with the free variables set from free (in order).
// Returns nil if there is no such solution.
func solveGaps(m int, cons [][3]int, free []int) []int {
	n := m - 1 // unknowns g[1..n] -> columns 0..n-1
	rows := make([][]float64, len(cons))
	for r, c := range cons {
		rows[r] = make([]float64, n+1)
		for j := c[0] + 1; j <= c[1]; j++ {
			rows[r][j-1] = 1
		}
		rows[r][n] = float64(c[2])
	}
	pivotCol := make([]int, 0, len(rows))
	rk := 0
	for col := 0; col < n && rk < len(rows); col++ {
		p := -1
		for r := rk; r < len(rows); r++ {
			if math.Abs(rows[r][col]) > 1e-9 {
				p = r
				break
			}
		}
		if p < 0 {
			continue
		}
		rows[rk], rows[p] = rows[p], rows[rk]
		f := rows[rk][col]
		for j := range rows[rk] {
			rows[rk][j] /= f
		}
		for r := range rows {
			if r != rk && math.Abs(rows[r][col]) > 1e-9 {
				f := rows[r][col]
				for j := range rows[r] {
					rows[r][j] -= f * rows[rk][j]
				}
			}
		}
		pivotCol = append(pivotCol, col)
		rk++
	}
	for r := rk; r < len(rows); r++ { // inconsistent system
		if math.Abs(rows[r][n]) > 1e-9 {
			return nil
		}
	}
	isPivot := make([]bool, n)
	for _, c := range pivotCol {
		isPivot[c] = true
	}
	x := make([]float64, n)
	fi := 0
	for c := 0; c < n; c++ {
		if !isPivot[c] {
			if fi < len(free) {
				x[c] = float64(free[fi])
			}
			fi++
		}
	}
	for r, c := range pivotCol {
		v := rows[r][n]
		for j := 0; j < n; j++ {
			if j != c && !isPivot[j] {
				v -= rows[r][j] * x[j]
			}
		}
		x[c] = v
	}
	g := make([]int, m)
	for c := 0; c < n; c++ {
		iv := int(math.Round(x[c]))
		if math.Abs(x[c]-float64(iv)) > 1e-6 || iv < 0 {
			return nil
		}
		g[c+1] = iv
	}
	for _, c := range cons { // exact re-check
		s := 0
		for j := c[0] + 1; j <= c[1]; j++ {
			s += g[j]
		}
		if s != c[2] {
			return nil
		}
	}
	return g
}

func c04RelaxScenario(tier string) *core.Scenario {
	thorough := tier == "thorough"
	orders2 := permutations(4) // element codes: 0=B0 1=B1 2=L0 3=L1
	// selected orders for three branches (element codes 0..2 = B0..B2, 3..5 = L0..L2)
	orders3 := [][]int{
		{0, 1, 2, 3, 4, 5}, // chain: spans overlap pairwise
		{0, 1, 2, 5, 4, 3}, // nested forward
		{3, 4, 5, 0, 1, 2}, // backward chain
		{5, 4, 3, 0, 1, 2}, // nested backward
		{3, 0, 1, 4, 5, 2}, // backward around two forward
		{0, 4, 1, 3, 2, 5}, // crossing forward/backward
		{1, 0, 3, 2, 5, 4},
		{4, 0, 2, 3, 1, 5},
	}
	mns2 := []string{"JMP", "JE", "CALL"}
	mns3 := []string{"JMP", "JNZ"}
	slacks := []int{-4, -3, -2, -1, 0, 1}
	slacks3 := []int{-1, 0, 1}
	if thorough {
		slacks3 = []int{-4, -3, -2, -1, 0, 1}
	}
	frees := []int{0, 11}
	return &core.Scenario{
		Name: "interacting_branches", Bound: -1,
		Rule:   "programs with 2 branches (all 24 orders of B0,B1,L0,L1; mnemonics over JMP/JE/CALL) and 3 branches (8 orders; JMP/JNZ): the gaps between the elements are solved so that the span of every JMP/Jcc is (rel8 bound + slack) bytes when all branches have their shortest form, slack over the stated set, remaining free gaps over {0,11}; x BITS. Every branch is decoded (condition, next+disp == sentinel-located label, no stray prefix), every label value embedded by DD and pass 1's symbol table must equal the real offsets. non-trivial = assembled without error; outcome class = tuple of emitted branch lengths",
		Bounds: map[string]any{"orders_2": len(orders2), "orders_3": len(orders3), "slack_2": slacks, "slack_3": slacks3, "free_gaps": frees, "mnemonics_2": mns2, "mnemonics_3": mns3},
		Build: func(c *core.Chooser) *core.Case {
			mode := []int{16, 32}[c.Pick("mode", 2)]
			k := 2 + c.Pick("k", 2)
			var order []int
			var mns []string
			var sl []int
			if k == 2 {
				order = orders2[c.Pick("order", len(orders2))]
				mns, sl = mns2, slacks
			} else {
				order = orders3[c.Pick("order", len(orders3))]
				mns, sl = mns3, slacks3
			}
			m := 2 * k
			elems := make([]relaxElem, m)
			posB, posL := make([]int, k), make([]int, k)
			for p, code := range order {
				if code < k {
					elems[p] = relaxElem{true, code}
					posB[code] = p
				} else {
					elems[p] = relaxElem{false, code - k}
					posL[code-k] = p
				}
			}
			mn := make([]string, k)
			for i := 0; i < k; i++ {
				mn[i] = mns[c.Pick(fmt.Sprintf("mn%d", i), len(mns))]
			}
			size := func(e relaxElem) int {
				if e.branch {
					return 8 + branchMinLen(mn[e.idx], mode)
				}
				return 8
			}
			var cons [][3]int
			slackOf := make([]int, k)
			for i := 0; i < k; i++ {
				if mn[i] == "CALL" {
					continue // no rel8 form: no boundary nearby
				}
				s := sl[c.Pick(fmt.Sprintf("slack%d", i), len(sl))]
				slackOf[i] = s
				lo, hi := posB[i], posL[i]
				bound := 127 // forward: bytes between the end of the branch and the label
				if hi < lo {
					lo, hi = hi, lo
					bound = 126 - 16 // backward: label's sentinel and the branch's own sentinel lie inside the span
				}
				inner := 0
				for p := lo + 1; p < hi; p++ {
					inner += size(elems[p])
				}
				cons = append(cons, [3]int{lo, hi, bound + s - inner})
			}
			nfree := (m - 1) - len(cons)
			if nfree < 0 {
				nfree = 0
			}
			free := make([]int, nfree+2)
			for i := range free {
				free[i] = 0
			}
			for i := 0; i < nfree; i++ {
				free[i] = frees[c.Pick(fmt.Sprintf("free%d", i), len(frees))]
			}
			g := solveGaps(m, cons, free)
			if g == nil {
				return nil
			}
			var sb strings.Builder
			if mode == 32 {
				sb.WriteString("[BITS 32]\n")
			}
			origin := int64(0x7c00)
			sb.WriteString("\tORG 0x7c00\n")
			for p, e := range elems {
				if p > 0 && g[p] > 0 {
					fmt.Fprintf(&sb, "\tRESB %d\n", g[p])
				}
				if e.branch {
					sb.WriteString(sentinelLine(2 * e.idx))
					fmt.Fprintf(&sb, "\t%s L%d\n", mn[e.idx], e.idx)
				} else {
					fmt.Fprintf(&sb, "L%d:\n", e.idx)
					sb.WriteString(sentinelLine(2*e.idx + 1))
				}
			}
			sb.WriteString("tail:\n" + sentinelLine(20))
			for i := 0; i < k; i++ {
				fmt.Fprintf(&sb, "\tDD L%d\n", i)
			}
			sb.WriteString("\tDD tail\n")
			var ord []string
			for _, e := range elems {
				if e.branch {
					ord = append(ord, fmt.Sprintf("B%d", e.idx))
				} else {
					ord = append(ord, fmt.Sprintf("L%d", e.idx))
				}
			}
			key := fmt.Sprintf("BITS %d|%s|%s|slack %v|gaps %v", mode, strings.Join(ord, " "), strings.Join(mn, ","), slackOf, g[1:])
			return &core.Case{
				Key:  key,
				Feat: feat("mode", fmt.Sprint(mode), "k", fmt.Sprint(k), "order", strings.Join(ord, " "), "mns", strings.Join(mn, ",")),
				Srcs: []string{sb.String()},
				Judge: func(rs []*core.Result) core.Verdict {
					r := rs[0]
					v := core.Verdict{}
					if core.ReportsError(r, nil) {
						v.Outcome = "diagnosed"
						v.Fails = []core.Fail{{Facet: "relaxation", Dev: "refused", Detail: "a program whose branches all have an encodable form was refused: " + errSummary(r)}}
						return v
					}
					out := r.Out
					st := findSentinel(out, 20)
					if st < 0 {
						v.Outcome = "no_sentinels"
						v.Fails = []core.Fail{{Facet: "layout", Dev: "sentinels_lost", Detail: "out=" + hexs(out[:min(len(out), 64)])}}
						return v
					}
					v.Nontrivial = true
					var lens []string
					real := make([]int64, k)
					for i := 0; i < k; i++ {
						sl := findSentinel(out, 2*i+1)
						if sl < 0 {
							v.Fails = append(v.Fails, core.Fail{Facet: "layout", Dev: "target_sentinel_lost", Detail: fmt.Sprintf("L%d", i)})
							return v
						}
						real[i] = origin + int64(sl)
					}
					for i := 0; i < k; i++ {
						sbp := findSentinel(out, 2*i)
						if sbp < 0 {
							v.Fails = append(v.Fails, core.Fail{Facet: "layout", Dev: "sentinels_lost", Detail: fmt.Sprintf("B%d", i)})
							return v
						}
						fs := judgeBranch(r, mn[i], mode, origin, sbp+8, real[i], false, 0)
						for j := range fs {
							fs[j].Detail = fmt.Sprintf("branch B%d (%s L%d): %s", i, mn[i], i, fs[j].Detail)
						}
						v.Fails = append(v.Fails, fs...)
						// emitted length of this branch = distance to the next sentinel minus the gap/label bytes is not
						// known here; read it from the decoder through judgeBranch's success: recompute cheaply
						nl := 0
						if len(fs) == 0 {
							nl = branchLenAt(out, sbp+8, mode)
						}
						lens = append(lens, fmt.Sprint(nl))
					}
					// embedded label values
					p := st + 8
					names := []string{}
					for i := 0; i < k; i++ {
						names = append(names, fmt.Sprintf("L%d", i))
					}
					names = append(names, "tail")
					wants := append(append([]int64{}, real...), origin+int64(st))
					for i, nm := range names {
						if p+4 > len(out) {
							v.Fails = append(v.Fails, core.Fail{Facet: "label_value", Dev: "missing", Detail: "DD " + nm + " not in the output"})
							break
						}
						got := rdle(out[p : p+4])
						if got != wants[i] {
							v.Fails = append(v.Fails, core.Fail{Facet: "label_value", Dev: fmt.Sprintf("DD:%+d", clampDiff(got-wants[i])), Detail: fmt.Sprintf("DD %s holds %#x, the label is at %#x", nm, got, wants[i])})
						}
						if !r.ViaCLI && !r.Died && r.Sym != nil {
							if sv, ok := r.Sym[nm]; ok && int64(sv) != wants[i] {
								v.Fails = append(v.Fails, core.Fail{Facet: "size_estimate", Dev: fmt.Sprintf("sym:%+d", clampDiff(int64(sv)-wants[i])), Detail: fmt.Sprintf("pass 1 has %s at %#x, it is at %#x", nm, sv, wants[i])})
							}
						}
						p += 4
					}
					v.Outcome = "forms:" + strings.Join(lens, ",")
					v.NTKey = fmt.Sprintf("%d|%s|%s", mode, strings.Join(mn, ","), v.Outcome)
					return v
				},
			}
		},
	}
}

func clampDiff(d int64) int64 {
	if d > 300 {
		return 999
	}
	if d < -300 {
		return -999
	}
	return d
}

func branchLenAt(out []byte, bo int, mode int) int {
	end := bo + 8
	if end > len(out) {
		end = len(out)
	}
	if bo >= end {
		return 0
	}
	in, err := x86ref.Decode(out[bo:end], mode)
	if err != nil {
		return 0
	}
	return in.Len
}

// c04RelaxEdges: situations in which the addresses behind a growing branch do NOT simply shift by the growth:
// an ALIGNB behind it absorbs or amplifies the shift (a branch whose target lies behind the padding may need a
// further round, and an implementation that re-chooses forms from scratch may never settle), a target that is an EQU
// capturing `$` behind a grown branch, and a branch in the region in front of a second ORG.
func c04RelaxEdges() *core.Scenario {
	return &core.Scenario{
		Name: "relaxation_edge_cases", Bound: -1,
		Rule:   "(a) JMP/JE over RESB a / ALIGNB 16 / RESB b with the displacement around 127; (b) JE L2 ; JMP far ; RESB p ; ALIGNB 16 ; RESB c ; L2 ... far (the growth of JMP changes the padding in front of L2) for all p 0..15 and c around the rel8 bound; (c) CALL/JNE/JMP to a name defined as EQU $ behind a grown branch; (d) a branch inside the region in front of a second ORG - x BITS: every branch must land on its sentinel-located target and none may be refused; the run must terminate",
		Bounds: map[string]any{"a": "96..112", "b": "8..20", "p": "0..15", "c": "90..112"},
		Build: func(c *core.Chooser) *core.Case {
			mode := []int{16, 32}[c.Pick("mode", 2)]
			fam := c.Pick("family", 4)
			hdr := ""
			if mode == 32 {
				hdr = "[BITS 32]\n"
			}
			type tgt struct {
				mn         string
				bsent, lab int // sentinel in front of the branch, sentinel at the label
			}
			var src, key string
			var targets []tgt
			origin := int64(0)
			switch fam {
			case 0:
				mn := c.Str("mn", "JMP", "JE")
				a := 96 + c.Pick("a", 17)
				b := 8 + c.Pick("b", 13)
				src = hdr + sentinelLine(0) + fmt.Sprintf("\t%s L\n\tRESB %d\n\tALIGNB 16\n\tRESB %d\nL:\n", mn, a, b) + sentinelLine(1)
				targets = []tgt{{mn, 0, 1}}
				key = fmt.Sprintf("over_alignb %s a=%d b=%d", mn, a, b)
			case 1:
				p := c.Pick("p", 16)
				cc := 90 + c.Pick("c", 23)
				src = hdr + fmt.Sprintf("\tRESB %d\n", p) + sentinelLine(0) + "\tJE L2\n" + sentinelLine(2) + "\tJMP far\n\tALIGNB 16\n" + fmt.Sprintf("\tRESB %d\nL2:\n", cc) + sentinelLine(1) + "\tRESB 200\nfar:\n" + sentinelLine(3)
				targets = []tgt{{"JE", 0, 1}, {"JMP", 2, 3}}
				key = fmt.Sprintf("padding_changes p=%d c=%d", p, cc)
			case 2:
				mn := c.Str("mn", "CALL", "JNE", "JMP")
				gap := c.Int("gap", 0, 3, 100, 125)
				src = hdr + "\tJMP far\n\tRESB 200\nfar:\nputc EQU $\n" + sentinelLine(1) + fmt.Sprintf("\tRESB %d\n", gap) + sentinelLine(0) + fmt.Sprintf("\t%s putc\n", mn) + "\tHLT\n"
				targets = []tgt{{mn, 0, 1}}
				key = fmt.Sprintf("equ_dollar_target %s gap=%d", mn, gap)
			default:
				mn := c.Str("mn", "JE", "JMP", "CALL")
				n := c.Int("n", 0, 100, 119, 120, 130, 300)
				origin = 0x7c00
				src = hdr + "\tORG 0x7c00\n" + sentinelLine(0) + fmt.Sprintf("\t%s L\n\tRESB %d\nL:\n", mn, n) + sentinelLine(1) + "\tORG 0x7e00\n\tDB 1\nM:\n\tDW M\n"
				targets = []tgt{{mn, 0, 1}}
				key = fmt.Sprintf("branch_before_second_org %s n=%d", mn, n)
			}
			return &core.Case{
				Key:  fmt.Sprintf("BITS %d|%s", mode, key),
				Feat: feat("mode", fmt.Sprint(mode), "family", fmt.Sprint(fam)),
				Srcs: []string{src},
				Judge: func(rs []*core.Result) core.Verdict {
					r := rs[0]
					v := core.Verdict{}
					if r.Timeout || (r.Died && r.ExitCode != 0 && r.Panic == "" && len(r.Out) == 0 && !core.ReportsError(r, nil)) {
						v.Outcome = "no_answer"
						v.Fails = []core.Fail{{Facet: "relaxation", Dev: "does_not_terminate", Detail: "no answer from the assembler for a program of a few lines"}}
						return v
					}
					if core.ReportsError(r, nil) {
						v.Outcome = "diagnosed"
						v.Fails = []core.Fail{{Facet: "relaxation", Dev: "refused", Detail: "a program whose branches all have an encodable form was refused: " + errSummary(r)}}
						return v
					}
					v.Outcome = "assembled"
					v.Nontrivial = true
					var lens []string
					for _, t := range targets {
						sb, sl := findSentinel(r.Out, t.bsent), findSentinel(r.Out, t.lab)
						if sb < 0 || sl < 0 {
							v.Fails = append(v.Fails, core.Fail{Facet: "layout", Dev: "sentinels_lost", Detail: hexs(r.Out[:min(len(r.Out), 48)])})
							return v
						}
						v.Fails = append(v.Fails, judgeBranch(r, t.mn, mode, origin, sb+8, origin+int64(sl), false, 0)...)
						lens = append(lens, fmt.Sprint(branchLenAt(r.Out, sb+8, mode)))
					}
					v.Outcome = "forms:" + strings.Join(lens, ",")
					return v
				},
			}
		},
	}
}
