package props

import (
	"fmt"
	"regexp"
	"strconv"
	"strings"

	"verifengine/core"
	"verifengine/x86ref"
)

// C03 — label and $ values equal the real byte offsets.

type stmtKind struct {
	text  string
	modes int // 1 = 16-bit only, 2 = 32-bit only, 3 = both
}

// The statement-kind catalogue: one representative per size class of every supported statement form.
func c03Kinds() []stmtKind {
	b := func(t string) stmtKind { return stmtKind{t, 3} }
	return []stmtKind{
		b("MOV AX,BX"), b("MOV AL,1"), b("MOV AX,1"), b("MOV EAX,1"), b("MOV AX,0x8000"), b("MOV ECX,EBX"), b("MOV CL,BH"),
		b("ADD AX,1"), b("ADD AX,0x100"), b("ADD EAX,0x100"), b("ADD CX,-1"), b("ADD ECX,0x12345678"), b("SUB CX,128"), b("CMP AL,1"), b("CMP CL,1"), b("OR EAX,1"), b("XOR BX,BX"), b("AND EAX,0x7fffffff"),
		b("AND BYTE [BX],1"), b("MOV WORD [BX],1"), b("MOV DWORD [0x1234],1"), b("MOV BYTE [0x0ff0],8"), b("ADD WORD [SI+4],0x100"), b("CMP DWORD [EBX],1"),
		b("MOV AX,[BX]"), b("MOV AX,[BX+4]"), b("MOV AX,[BX+0x100]"), b("MOV AX,[BP]"), b("MOV AX,[BX+SI]"), b("MOV CX,[0x1234]"), b("MOV AX,[0x1234]"), b("MOV [0x1234],AX"), b("MOV [0x1234],AL"), b("MOV AL,[SI]"), b("MOV [DI],CL"),
		b("MOV AX,[BX+127]"), b("MOV AX,[BX+128]"), b("MOV AX,[BX-128]"), b("MOV AX,[BX-129]"), b("MOV [SI-128],AL"), b("ADD AX,[BP-128]"), b("CMP BYTE [BX+127],1"), b("MOV WORD [DI-129],1"),
		b("MOV EAX,[EBX+127]"), b("MOV EAX,[EBX+128]"), b("MOV EAX,[EBX-128]"), b("MOV EAX,[EBX-129]"), b("MOV EAX,[EBX+ECX*2-128]"), b("ADD ECX,[ESI-128]"),
		b("MOV EAX,[EBX]"), b("MOV EAX,[EBX+16]"), b("MOV EAX,[EBX+0x100]"), b("MOV EAX,[EBX+ECX*4+8]"), b("MOV EAX,[ESP+4]"), b("MOV EAX,[EBP]"), b("MOV ECX,[EAX+EAX]"), b("MOV CX,[ESI]"), b("MOV [EDI],AL"),
		b("NOT AX"), b("NOT EAX"), b("NOT WORD [BX]"), b("SHL AX,1"), b("SHL AX,4"), b("SHR EAX,16"), b("SAR CL,1"),
		b("IMUL CX,4"), b("IMUL ECX,4608"), b("IMUL CX,0x100"),
		b("IN AL,DX"), b("IN AX,DX"), b("IN EAX,DX"), b("IN AL,0x60"), b("IN AX,0x60"), b("OUT DX,AL"), b("OUT DX,EAX"), b("OUT 0x60,AL"), b("OUT 0x60,AX"),
		b("PUSH AX"), b("PUSH EAX"), b("PUSH ES"), b("PUSH FS"), b("PUSH 1"), b("PUSH 0x100"), b("PUSH -1"), b("PUSH WORD [BX]"), b("PUSH DWORD [EBX+4]"),
		b("POP AX"), b("POP EAX"), b("POP DS"), b("POP GS"), b("POP WORD [BX]"),
		b("INT 3"), b("INT 0x10"), b("INT 0x80"), b("LGDT [0x1234]"), b("MOV DS,AX"), b("MOV AX,DS"), b("MOV CR0,EAX"), b("MOV EAX,CR0"),
		b("HLT"), b("NOP"), b("CLI"), b("RET"), b("CPUID"), b("CWDE"), b("CBW"), b("PUSHAD"), b("IRETD"), b("FNINIT"),
		b("JMP after"), b("JMP 0xc200"), b("JE after"), b("JNZ after"), b("CALL after"), b("CALL 0x1234"), b("JMP DWORD 2*8:0x0000001b"), b("JMP back"), b("JE back"), b("CALL back"),
		b("DB 1"), b("DB 1,2,3"), b(`DB "abc"`), b(`DB "hello, world", 0x0a, 0`), b("DW 1"), b("DW 1,2"), b("DW back"), b("DD 1"), b("DD 1,2"), b("DD back"), b("DB $"),
		b("RESB 1"), b("RESB 16"), b("RESB 0x100"), b("ALIGNB 4"), b("ALIGNB 16"),
		b("X EQU 5"), b(`[INSTRSET "i486p"]`), b("GLOBAL back"), b("EXTERN ext1"), b("inner:"),
		// strings whose characters are several bytes long (the CLI hands the parser UTF-8), a second section
		// directive in mid-file, labels written as memory addresses
		b(`DB "café"`), b(`DB "日本語",0`), b(`DB "ｱｲｳ","é",1`), b("[SECTION .data]"), b("[SECTION .text]"), b("[SECTION .bss]"),
		b("MOV BYTE [after],1"), b("CMP WORD [back],1"), b("MOV AX,[after]"), b("MOV [back],EAX"), b("NOT DWORD [after]"),
	}
}

func stmtLine(s string) string {
	if strings.HasSuffix(s, ":") || strings.Contains(s, " EQU ") {
		return s + "\n"
	}
	return "\t" + s + "\n"
}

var estEmitRe = regexp.MustCompile(`^est=(-?\d+) emit=(-?\d+)$`)

// knownDrift: per (mode, kind) est-emit taken from the size_estimate findings (the defect model
// against which label drift inside longer programs is judged).
func knownDriftTable(findings []*core.Finding) map[string]int {
	t := map[string]int{}
	for _, fd := range findings {
		if fd.Kind != "finding" || fd.Facet != "size_estimate" {
			continue
		}
		m := estEmitRe.FindStringSubmatch(fd.Deviation)
		if m == nil {
			continue
		}
		est, _ := strconv.Atoi(m[1])
		emit, _ := strconv.Atoi(m[2])
		for _, mok := range fd.Cell["mok"] { // "mode|org|kind"
			t[mok] = est - emit
		}
	}
	return t
}

var c03Drift map[string]int

func c03Program(mode int, origin int64, orgText string, pre string, kinds []string, uses []string) string {
	var sb strings.Builder
	if mode == 32 {
		sb.WriteString("[BITS 32]\n")
	}
	sb.WriteString(orgText)
	sb.WriteString("back:\n")
	sb.WriteString(sentinelLine(0))
	sb.WriteString(pre)
	for _, k := range kinds {
		sb.WriteString(stmtLine(k))
	}
	sb.WriteString("lab:\n")
	sb.WriteString(sentinelLine(1))
	sb.WriteString("CAP EQU $\n") // captures the address right behind the sentinel: lab + 8
	for i, u := range uses {
		sb.WriteString(stmtLine(u))
		sb.WriteString(sentinelLine(2 + i))
	}
	sb.WriteString("after:\n")
	return sb.String()
}

// readUse extracts the label value embedded by a use statement from its emitted bytes.
func readUse(use string, region []byte, mode int) (val int64, width int, ok bool) {
	switch {
	case strings.HasPrefix(use, "DW "):
		if len(region) != 2 {
			return 0, 0, false
		}
		return rdle(region), 16, true
	case strings.HasPrefix(use, "DD "):
		if len(region) != 4 {
			return 0, 0, false
		}
		return rdle(region), 32, true
	}
	in, err := x86ref.Decode(region, mode)
	if err != nil || in.Len != len(region) {
		return 0, 0, false
	}
	for _, o := range in.Ops {
		if o.Kind == "imm" {
			return o.Imm, o.Size, true
		}
		if o.Kind == "mem" {
			return o.Mem.Disp, o.Mem.AddrSize, true
		}
	}
	return 0, 0, false
}

func c03Uses(mode int) []string {
	if mode == 32 {
		return []string{"DW lab", "DD lab", "MOV EBX,lab", "MOV EAX,[lab]", "LGDT [lab]", "DW $", "DD $", "DW CAP"}
	}
	return []string{"DW lab", "DD lab", "MOV BX,lab", "MOV AX,[lab]", "LGDT [lab]", "DW $", "DD $", "DW CAP"}
}

func c03Judge(mode int, origin int64, kinds []string, uses []string, withBase bool) func(rs []*core.Result) core.Verdict {
	return func(rs []*core.Result) core.Verdict {
		r := rs[0]
		v := core.Verdict{}
		var base *core.Result
		if withBase {
			base = rs[1]
		}
		if core.ReportsError(r, base) {
			v.Outcome = "diagnosed"
			return v
		}
		out := r.Out
		s0, s1 := findSentinel(out, 0), findSentinel(out, 1)
		if s0 < 0 || s1 < 0 {
			v.Outcome = "no_sentinels"
			v.Fails = append(v.Fails, core.Fail{Facet: "layout", Dev: "sentinels_lost", Detail: "out=" + hexs(out)})
			return v
		}
		v.Outcome = "assembled"
		v.Nontrivial = s1-s0-8 > 0
		real := origin + int64(s1)
		emit := s1 - s0 - 8
		predicted := 0
		explainedAll := true
		for _, k := range kinds {
			if d, ok := c03Drift[fmt.Sprintf("%d|0x%x|%s", mode, origin, k)]; ok {
				predicted += d
			}
		}
		_ = explainedAll
		// size estimate of the statements under test (needs the worker's pass-1 table)
		driftObs := int64(0) // pass-1 address of lab minus its real address
		if !r.ViaCLI && !r.Died && r.Sym != nil {
			if lv, ok := r.Sym["lab"]; ok {
				driftObs = int64(lv) - real
				est := int(int64(lv) - origin - int64(s0) - 8)
				if est != emit {
					dev := fmt.Sprintf("est=%d emit=%d", est, emit)
					if len(kinds) > 1 {
						if est-emit == predicted {
							dev = "explained_by_known_size_estimates"
						} else {
							dev = fmt.Sprintf("drift:%+d predicted:%+d", est-emit, predicted)
						}
					}
					v.Fails = append(v.Fails, core.Fail{Facet: "size_estimate", Dev: dev,
						Detail: fmt.Sprintf("pass 1 advanced the location counter by %d for %v, %d bytes were emitted (% X)", est, kinds, emit, out[s0+8:s1])})
				}
			}
			if int64(r.LOC)-origin-int64(len(out)) != int64(0) {
				d := int(int64(r.LOC) - origin - int64(len(out)))
				if int64(d) != driftObs {
					v.Fails = append(v.Fails, core.Fail{Facet: "total_len", Dev: fmt.Sprintf("loc-len:%+d", d), Detail: fmt.Sprintf("final LOC %d origin %d output length %d", r.LOC, origin, len(out))})
				}
			}
		}
		// embedded values
		for i, u := range uses {
			a, b := findSentinel(out, 1+i), findSentinel(out, 2+i)
			if a < 0 || b < 0 || b < a+8 {
				v.Fails = append(v.Fails, core.Fail{Facet: "layout", Dev: "use_sentinels_lost:" + u, Detail: "out=" + hexs(out)})
				continue
			}
			region := out[a+8 : b]
			val, width, ok := readUse(u, region, mode)
			if !ok {
				v.Fails = append(v.Fails, core.Fail{Facet: "use_encoding", Dev: "unreadable:" + u, Detail: fmt.Sprintf("% X", region)})
				continue
			}
			// the address-assignment error of the statements under test (driftObs) is reported by the
			// size_estimate facet; the embedding itself is judged against the drift-adjusted address
			want := real + driftObs
			facet := "label_value"
			if strings.HasSuffix(u, "$") {
				want = origin + int64(a) + 8 + driftObs
				facet = "dollar_value"
			} else if u == "DW CAP" { // `CAP EQU $` was written directly behind the label's sentinel
				want = real + 8 + driftObs
				facet = "dollar_value"
			}
			mask := int64(1)<<uint(width) - 1
			if (val^want)&mask != 0 {
				diff := (val - want) & mask
				if diff > mask/2 {
					diff -= mask + 1
				}
				dev := fmt.Sprintf("%s:%+d", u, diff)
				if val&mask == 0 {
					dev = u + ":zero"
				}
				v.Fails = append(v.Fails, core.Fail{Facet: facet, Dev: dev,
					Detail: fmt.Sprintf("%s embeds %#x, the labelled statement really begins at %#x (origin %#x + offset %d)", u, val&mask, want&mask, origin, want-origin)})
			}
		}
		return v
	}
}

func c03Scenarios(tier string) []*core.Scenario {
	kinds := c03Kinds()
	orgs := []int64{0, 0x7c00, 0xc200}
	mk := func(name string, depth int, orgs []int64) *core.Scenario {
		return &core.Scenario{
			Name: name, Bound: -1,
			Rule:   fmt.Sprintf("every ordered %d-tuple of statement kinds (catalogue of %d kinds: one per size class) in front of a label x ORG x BITS, with 7 kinds of use of the label and $ after it; non-trivial = assembled without error and the statements under test emitted >= 1 byte", depth, len(kinds)),
			Bounds: map[string]any{"kinds": len(kinds), "depth": depth, "origins": orgs, "uses": c03Uses(16)},
			Build: func(c *core.Chooser) *core.Case {
				mode := []int{16, 32}[c.Pick("mode", 2)]
				oi := c.Pick("org", len(orgs))
				origin := orgs[oi]
				orgText := ""
				if origin != 0 {
					orgText = fmt.Sprintf("\tORG 0x%x\n", origin)
				}
				var ks []string
				for d := 0; d < depth; d++ {
					k := kinds[c.Pick(fmt.Sprintf("k%d", d+1), len(kinds))]
					ks = append(ks, k.text)
				}
				if depth == 2 && ks[0] == "inner:" && ks[1] == "inner:" {
					return nil
				}
				for i, k := range ks { // a kind used twice must not define the same name twice
					if depth == 2 && i == 1 && k == ks[0] && (strings.HasSuffix(k, ":") || strings.Contains(k, " EQU ")) {
						return nil
					}
				}
				if depth == 2 {
					// position-sensitive kinds next to a kind with a known size-estimate defect (or a branch whose
					// form depends on the distance) interact non-additively: outside the additive defect model
					sens := func(k string) bool { return strings.HasPrefix(k, "ALIGNB") || k == "RESB 0x100" }
					bad := func(k string) bool {
						_, known := c03Drift[fmt.Sprintf("%d|0x%x|%s", mode, origin, k)]
						return known || isBranchKind(k)
					}
					if (sens(ks[0]) && bad(ks[1])) || (sens(ks[1]) && bad(ks[0])) {
						return nil
					}
				}
				uses := c03Uses(mode)
				src := c03Program(mode, origin, orgText, "", ks, uses)
				basesrc := c03Program(mode, origin, orgText, "", nil, uses)
				f := feat("mode", fmt.Sprint(mode), "org", fmt.Sprintf("0x%x", origin), "k1", ks[0], "depth", fmt.Sprint(depth), "mok", fmt.Sprintf("%d|0x%x|%s", mode, origin, ks[0]))
				if depth == 2 {
					f["k2"] = ks[1]
				}
				return &core.Case{
					Key:   fmt.Sprintf("BITS %d|ORG 0x%x|%s", mode, origin, strings.Join(ks, " ; ")),
					Feat:  f,
					Srcs:  []string{src, basesrc},
					Judge: c03Judge(mode, origin, ks, uses, true),
				}
			},
		}
	}
	scs := []*core.Scenario{mk("kind_then_label", 1, orgs)}
	if tier == "thorough" {
		scs = append(scs, mk("pair_then_label", 2, []int64{0x7c00}))
	}
	// two statements of the same shape whose immediates / displacements fall on different sides of an
	// encoding boundary (a size remembered from the first must not be reused for the second)
	shapes := []string{"ADD CX,{}", "SUB ECX,{}", "CMP BX,{}", "AND EDX,{}", "OR WORD [BX],{}", "XOR DWORD [EBX],{}", "MOV AX,[BX+{}]", "MOV [SI+{}],CL", "MOV EAX,[EBX+{}]", "ADD AX,{}", "MOV CX,{}", "CMP BYTE [BX+{}],1"}
	vals := []string{"1", "127", "128", "-128", "-129", "0x200"}
	scs = append(scs, &core.Scenario{
		Name: "same_shape_pairs", Bound: -1,
		Rule:   "12 statement shapes x every ordered pair of 6 values on both sides of the 8-bit boundary, in front of a label x BITS: pass-1 size of the pair == emitted size, label value == real offset",
		Bounds: map[string]any{"shapes": shapes, "values": vals},
		Build: func(c *core.Chooser) *core.Case {
			mode := []int{16, 32}[c.Pick("mode", 2)]
			sh := shapes[c.Pick("shape", len(shapes))]
			a := vals[c.Pick("a", len(vals))]
			b := vals[c.Pick("b", len(vals))]
			ks := []string{strings.ReplaceAll(sh, "{}", a), strings.ReplaceAll(sh, "{}", b)}
			if strings.Contains(sh, "[BX+") || strings.Contains(sh, "[SI+") || strings.Contains(sh, "[EBX+") {
				ks[0] = strings.ReplaceAll(ks[0], "+-", "-")
				ks[1] = strings.ReplaceAll(ks[1], "+-", "-")
			}
			uses := append(append([]string{}, c03Uses(mode)[:3]...), "DW CAP")
			src := c03Program(mode, 0x7c00, "\tORG 0x7c00\n", "", ks, uses)
			basesrc := c03Program(mode, 0x7c00, "\tORG 0x7c00\n", "", nil, uses)
			return &core.Case{
				Key:   fmt.Sprintf("BITS %d|%s ; %s", mode, ks[0], ks[1]),
				Feat:  feat("mode", fmt.Sprint(mode), "org", "0x7c00", "shape", sh, "a", a, "b", b, "depth", "2", "k1", ks[0], "k2", ks[1]),
				Srcs:  []string{src, basesrc},
				Judge: c03Judge(mode, 0x7c00, ks, uses, true),
			}
		},
	})
	// mode switches in front of the label: header mode C, then [BITS B] K1 [BITS C] K2 lab:
	msKinds := []string{"MOV AX,1", "MOV EAX,1", "ADD CX,0x100", "PUSH 0x100", "MOV AX,[BX+2]", "MOV EAX,[EBX+4]", "AND ECX,0x00ff", "CWDE", "IMUL CX,4", "MOV WORD [0x0ff4],320"}
	scs = append(scs, &core.Scenario{
		Name: "mode_switch_then_label", Bound: -1,
		Rule:   "file mode C, then [BITS B] K1 [BITS C] K2 in front of the label, for all (B, C) in {16,32}^2 and all ordered pairs of 10 mode-sensitive kinds: the label (used under mode C) must hold its real offset",
		Bounds: map[string]any{"kinds": msKinds, "modes": "{16,32}^2"},
		Build: func(c *core.Chooser) *core.Case {
			mc := []int{16, 32}[c.Pick("modeC", 2)]
			mb := []int{16, 32}[c.Pick("modeB", 2)]
			k1 := msKinds[c.Pick("k1", len(msKinds))]
			k2 := msKinds[c.Pick("k2", len(msKinds))]
			ks := []string{fmt.Sprintf("[BITS %d]", mb), k1, fmt.Sprintf("[BITS %d]", mc), k2}
			uses := append(append([]string{}, c03Uses(mc)[:3]...), "DW CAP")
			src := c03Program(mc, 0x7c00, "\tORG 0x7c00\n", "", ks, uses)
			basesrc := c03Program(mc, 0x7c00, "\tORG 0x7c00\n", "", nil, uses)
			return &core.Case{
				Key:   fmt.Sprintf("BITS %d|%s", mc, strings.Join(ks, " ; ")),
				Feat:  feat("mode", fmt.Sprint(mc), "modeB", fmt.Sprint(mb), "org", "0x7c00", "depth", "4", "k1", k1, "k2", k2),
				Srcs:  []string{src, basesrc},
				Judge: c03Judge(mc, 0x7c00, ks, uses, true),
			}
		},
	})
	// forward uses
	fwdUses := []string{"MOV AX,lab", "MOV BX,lab", "MOV EAX,lab", "MOV AX,[lab]", "DW lab", "DD lab", "PUSH lab"}
	scs = append(scs, &core.Scenario{
		Name: "forward_use", Bound: -1,
		Rule:   "a use of the label BEFORE its definition, followed by every statement kind, x ORG x BITS; the embedded value must equal the real offset of the label",
		Bounds: map[string]any{"forward_uses": fwdUses, "kinds": len(kinds)},
		Build: func(c *core.Chooser) *core.Case {
			mode := []int{16, 32}[c.Pick("mode", 2)]
			origin := orgs[c.Pick("org", 2)]
			orgText := ""
			if origin != 0 {
				orgText = fmt.Sprintf("\tORG 0x%x\n", origin)
			}
			u := fwdUses[c.Pick("use", len(fwdUses))]
			k := kinds[c.Pick("k1", len(kinds))].text
			var sb strings.Builder
			if mode == 32 {
				sb.WriteString("[BITS 32]\n")
			}
			sb.WriteString(orgText + "back:\n" + sentinelLine(0) + stmtLine(u) + sentinelLine(2) + stmtLine(k) + "lab:\n" + sentinelLine(1) + "after:\n")
			src := sb.String()
			return &core.Case{
				Key:  fmt.Sprintf("BITS %d|ORG 0x%x|fwd %s ; %s", mode, origin, u, k),
				Feat: feat("mode", fmt.Sprint(mode), "org", fmt.Sprintf("0x%x", origin), "use", u, "k1", k),
				Srcs: []string{src},
				Judge: func(rs []*core.Result) core.Verdict {
					r := rs[0]
					v := core.Verdict{}
					if core.ReportsError(r, nil) {
						v.Outcome = "diagnosed"
						return v
					}
					out := r.Out
					s0, s2, s1 := findSentinel(out, 0), findSentinel(out, 2), findSentinel(out, 1)
					if s0 < 0 || s1 < 0 || s2 < 0 || s2 < s0+8 {
						v.Outcome = "no_sentinels"
						v.Fails = append(v.Fails, core.Fail{Facet: "layout", Dev: "sentinels_lost", Detail: "out=" + hexs(out)})
						return v
					}
					v.Outcome = "assembled"
					v.Nontrivial = true
					real := origin + int64(s1)
					val, width, ok := readUse(u, out[s0+8:s2], mode)
					if !ok {
						v.Fails = append(v.Fails, core.Fail{Facet: "use_encoding", Dev: "unreadable:" + u, Detail: fmt.Sprintf("% X", out[s0+8:s2])})
						return v
					}
					mask := int64(1)<<uint(width) - 1
					driftObs := int64(0)
					if !r.ViaCLI && !r.Died && r.Sym != nil {
						if lv, ok := r.Sym["lab"]; ok {
							driftObs = int64(lv) - real
						}
					}
					if pred := int64(c03Drift[fmt.Sprintf("%d|0x%x|%s", mode, origin, k)]); driftObs != pred {
						v.Fails = append(v.Fails, core.Fail{Facet: "size_estimate", Dev: fmt.Sprintf("fwd_use_drift:%+d", driftObs-pred),
							Detail: fmt.Sprintf("pass-1 address of lab is off by %+d (the known estimate error of %q accounts for %+d): the forward use %q itself is mis-sized", driftObs, k, pred, u)})
					}
					if (val^(real+driftObs))&mask != 0 {
						diff := (val - real - driftObs) & mask
						if diff > mask/2 {
							diff -= mask + 1
						}
						dev := fmt.Sprintf("%s:%+d", u, diff)
						if val&mask == 0 {
							dev = u + ":zero"
						}
						v.Fails = append(v.Fails, core.Fail{Facet: "label_value", Dev: dev,
							Detail: fmt.Sprintf("forward %s embeds %#x, label really at %#x", u, val&mask, real&mask)})
					}
					return v
				},
			}
		},
	})
	return scs
}

// c03SizeSweeps re-uses the single-statement spaces of C01 and C02 under C03's oracle: the size
// pass 1 assigns to the statement (location counter after it) must equal the number of bytes emitted.
func c03SizeSweeps(tier string) []*core.Scenario {
	var out []*core.Scenario
	src := append([]*core.Scenario{}, c01Scenarios(tier)...)
	src = append(src, c02Scenario("quick"))
	for _, sc := range src {
		sc := sc
		if sc.Name == "statement_in_mode_switching_file" {
			continue // multi-statement programs without a baseline program: sizes under mode switches are C17's mode_sizing facet
		}
		build := sc.Build
		out = append(out, &core.Scenario{
			Name: "size_" + sc.Name, Bound: -1,
			Rule:   "the single-statement space of scenario '" + sc.Name + "' (see C01/C02) under the size oracle: pass-1 location counter after the statement == emitted length; non-trivial = assembled without error and emitted >= 1 byte",
			Bounds: sc.Bounds,
			Build: func(c *core.Chooser) *core.Case {
				cs := build(c)
				if cs == nil || len(cs.Srcs) < 2 {
					return nil
				}
				cs.Judge = func(rs []*core.Result) core.Verdict {
					r, base := rs[0], rs[1]
					v := core.Verdict{}
					if core.ReportsError(r, base) {
						v.Outcome = "diagnosed"
						return v
					}
					v.Outcome = "assembled"
					v.Nontrivial = len(r.Out) > 0
					// relative to the baseline program (same frame without the statement: ORG, trailing label + byte)
					est, emit := int(r.LOC)-int(base.LOC), len(r.Out)-len(base.Out)
					if !r.ViaCLI && !r.Died && !base.ViaCLI && !base.Died && len(r.Out) > 0 && est != emit {
						v.Fails = []core.Fail{{Facet: "size_estimate", Dev: fmt.Sprintf("est=%d emit=%d", est, emit),
							Detail: fmt.Sprintf("pass 1 sized the statement as %d bytes, %d were emitted (% X)", est, emit, r.Out)}}
					}
					return v
				}
				return cs
			},
		})
	}
	return out
}

func init() {
	register(&Property{
		ID: "C03",
		Scenarios: func(tier string) []*core.Scenario {
			return append(append(c03Scenarios(tier), c03Sections(), c03AlignbOrigins()), c03SizeSweeps(tier)...)
		},
		Pre: func(r *core.Run, tier string) {
			x86refSelfCheck(r, tier)
			c03Drift = knownDriftTable(r.Findings)
		},
		Assumptions: []string{
			"the real address of a label is origin + offset of the unique 8-byte sentinel DB line that follows it",
			"embedded values are read from DW/DD data directly and from instruction uses through the reference decoder",
			"per-kind size-estimate findings (known_findings.jsonl, facet size_estimate) are the defect model for longer programs: drift is suppressed only when it equals the sum of the listed est-emit differences of the kinds present",
			"programs for which gosk reports an error are not judged",
		},
	})
}

func isBranchKind(k string) bool {
	return strings.HasPrefix(k, "J") || strings.HasPrefix(k, "CALL ")
}
