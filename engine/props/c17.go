package props

import (
	"bytes"
	"fmt"
	"strings"

	"verifengine/core"
)

// C17 — BITS selects the encoding mode for what follows it.

var c17Groups = [][]string{
	{"MOV AX,1"}, {"MOV EAX,1"}, {"ADD CX,0x100", "SUB ECX,2"}, {"PUSH AX", "PUSH EAX"}, {"MOV AX,[BX+2]"}, {"MOV EAX,[EBX+4]"},
	{"PUSH 0x100"}, {"IN EAX,DX", "OUT DX,AX"}, {"MOV WORD [0x0ff4],320"}, {"XOR EBX,EBX", "DB 0x90", "CMP AL,1"},
	{"MOV DS,AX", "MOV AX,1", "MOV EBX,2"}, {"MOV ES,CX", "MOV AX,DS", "ADD ECX,0x100", "PUSH EAX"}, {"SHL EAX,2", "NOT CX", "OR EAX,1", "SUB ECX,4", "AND AX,0x00ff"},
	{"MOV CR0,EAX", "MOV EAX,CR0"}, {"IMUL ECX,4", "IMUL CX,0x100"}, {"PUSH FS", "POP GS", "PUSH 0x80", "PUSH -129"},
	{"MOV AX,[BX+SI]", "MOV EAX,[BP]", "MOV CX,[EAX+EAX]"}, {"CMP BYTE [0x0ff0],0", "MOV [ESI+4],AX", "ADD EAX,[EBP+ECX*4]"},
}

var c17Neutral = []string{"", "; comment", `[INSTRSET "i486p"]`, "X EQU 5", "EXTERN ext1", "lbl:", "DB 0x11", "DB 1\n\tDB 2\n\tDB 3", "DW 1\n\tDW 2\n\tDD 3\n\tDD 4"}

// size-estimate defects that are C03's known findings, per "mode|group" (none left: PUSH imm16 was repaired by 1525c62)
var c17KnownSizeDrift = map[string]int64{}

func c17Body(stmts []string) string {
	var sb strings.Builder
	for _, s := range stmts {
		sb.WriteString(stmtLine(s))
	}
	return sb.String()
}

func bitsLine(m int) string {
	if m == 0 {
		return ""
	}
	return fmt.Sprintf("[BITS %d]\n", m)
}

func c17Scenarios(tier string) []*core.Scenario {
	var scs []*core.Scenario
	scs = append(scs, &core.Scenario{
		Name: "mode_switches", Bound: -1,
		Rule:   "programs of 3 segments with a directive choice {none, [BITS 16], [BITS 32], [BITS 32][BITS 16], [BITS 16][BITS 32]} (the last two: a directive overridden at once by the next line) in front of each x 18 mode-sensitive instruction groups x 9 neutral statements (incl. runs of data directives) between directive and instructions; output must equal the concatenation of each segment assembled alone under the mode in force; non-trivial = at least two different modes in force",
		Bounds: map[string]any{"segments": 3, "directive_choices": []string{"none", "16", "32", "32 then 16", "16 then 32"}, "groups": len(c17Groups), "neutral": c17Neutral},
		Build: func(c *core.Chooser) *core.Case {
			g := c.Pick("group", len(c17Groups))
			nt := c17Neutral[c.Pick("neutral", len(c17Neutral))]
			var dirs [3]int
			var before [3]int // a directive of the OTHER mode written directly in front of the one that counts (0 = none)
			for i := 0; i < 3; i++ {
				k := c.Pick(fmt.Sprintf("dir%d", i), 5)
				dirs[i] = []int{0, 16, 32, 16, 32}[k]
				before[i] = []int{0, 0, 0, 32, 16}[k]
			}
			inForce := 16
			var src strings.Builder
			var segSrcs, lastSrcs []string
			var eff []int
			last := 16
			for i := 0; i < 3; i++ {
				if dirs[i] != 0 {
					last = dirs[i]
				}
			}
			neutralBytes := 0
			for i := 0; i < 3; i++ {
				if dirs[i] != 0 {
					inForce = dirs[i]
				}
				eff = append(eff, inForce)
				grp := c17Groups[(g+i)%len(c17Groups)]
				n := nt
				if n == "lbl:" {
					n = fmt.Sprintf("lbl%d:", i)
				} else if n == "X EQU 5" {
					n = fmt.Sprintf("X%d EQU 5", i)
				}
				src.WriteString(bitsLine(before[i])) // overridden at once by the next line: two directives, nothing between them
				src.WriteString(bitsLine(dirs[i]))
				if n != "" && dirs[i] != 0 {
					src.WriteString(stmtLine(n))
					if strings.HasPrefix(n, "DB ") || strings.HasPrefix(n, "DW ") {
						neutralBytes++
					}
				}
				src.WriteString(c17Body(grp))
				pre := ""
				if n != "" && dirs[i] != 0 && (strings.HasPrefix(n, "DB ") || strings.HasPrefix(n, "DW ")) {
					pre = stmtLine(n)
				}
				segSrcs = append(segSrcs, bitsLine(inForce)+pre+c17Body(grp))
				lastSrcs = append(lastSrcs, bitsLine(last)+pre+c17Body(grp))
			}
			mixed := eff[0] != eff[1] || eff[1] != eff[2]
			if c.Bool("grown_branch_at_end") { // a Jcc across 300 bytes at the end: pass 1 runs a second time over the whole file
				tailB := "\tJNZ rlx_far\n\tRESB 300\nrlx_far:\n\tHLT\n"
				src.WriteString(tailB)
				segSrcs[2] += tailB
				lastSrcs[2] += tailB
			}
			srcs := append([]string{src.String()}, segSrcs...)
			srcs = append(srcs, lastSrcs...)
			return &core.Case{
				Key:       fmt.Sprintf("dirs=%v|group=%d|neutral=%s|len=%d", dirs, g, nt, src.Len()) + map[bool]string{true: fmt.Sprintf("|overridden=%v", before), false: ""}[before != [3]int{}],
				Feat:      feat("dirs", fmt.Sprint(dirs), "overridden", fmt.Sprint(before), "eff", fmt.Sprint(eff), "group", fmt.Sprint(g), "neutral", nt, "mixed", fmt.Sprint(mixed), "last", fmt.Sprint(last)),
				FreshRefs: true, Srcs: srcs,
				Judge: func(rs []*core.Result) core.Verdict {
					v := core.Verdict{}
					for _, r := range rs[:4] {
						if core.ReportsError(r, nil) {
							v.Outcome = "diagnosed"
							return v
						}
					}
					v.Outcome = "assembled"
					v.Nontrivial = mixed
					var want, lastWins []byte
					for i := 0; i < 3; i++ {
						want = append(want, rs[1+i].Out...)
						lastWins = append(lastWins, rs[4+i].Out...)
					}
					if !bytes.Equal(rs[0].Out, want) {
						dev := "other"
						if bytes.Equal(rs[0].Out, lastWins) {
							dev = "last_bits_wins"
						}
						v.Fails = []core.Fail{{Facet: "mode_scope", Dev: dev, Detail: fmt.Sprintf("got %x want %x (each segment under its own mode %v)", rs[0].Out, want, eff)}}
					}
					return v
				},
			}
		}})
	prelude := []string{"; header comment", `[INSTRSET "i486p"]`, "X EQU 5", "EXTERN ext1", "Y EQU X+1"}
	scs = append(scs, &core.Scenario{
		Name: "directive_position", Bound: -1,
		Rule:   "[BITS 32] (or [BITS 16], or none) at every position of a 5-statement prelude before the first instruction x 18 instruction groups x {flat binary, WCOFF object (.text compared)}: the output must equal the group assembled directly under that mode; default (no directive) must equal [BITS 16]",
		Bounds: map[string]any{"prelude": prelude, "positions": len(prelude) + 1},
		Build: func(c *core.Chooser) *core.Case {
			g := c.Pick("group", len(c17Groups))
			m := []int{32, 16, 0}[c.Pick("mode", 3)]
			pos := c.Pick("pos", len(prelude)+1)
			coff := c.Bool("wcoff")                // the same program as a WCOFF object: the .text sections are compared
			relax := c.Bool("grown_branch_behind") // a Jcc across 300 bytes BEHIND the group: pass 1 runs a second time
			var sb strings.Builder
			if coff {
				sb.WriteString("[FORMAT \"WCOFF\"]\n")
			}
			for i := 0; i <= len(prelude); i++ {
				if i == pos {
					sb.WriteString(bitsLine(m))
				}
				if i < len(prelude) {
					sb.WriteString(stmtLine(prelude[i]))
				}
			}
			tail := "endlab:\n" + sentinelLine(0) + "\tDD endlab\n"
			if relax {
				tail += "\tJNZ rlx_far\n\tRESB 300\nrlx_far:\n\tHLT\n"
			}
			sb.WriteString(c17Body(c17Groups[g]) + tail)
			eff := m
			if eff == 0 {
				eff = 16
			}
			ref := bitsLine(eff) + c17Body(c17Groups[g]) + tail
			if coff {
				ref = "[FORMAT \"WCOFF\"]\n" + ref
			}
			return &core.Case{
				Key:       fmt.Sprintf("BITS %d at %d|group=%d", m, pos, g) + map[bool]string{true: "|WCOFF", false: ""}[coff] + map[bool]string{true: "|grown branch behind", false: ""}[relax],
				Feat:      feat("mode", fmt.Sprint(m), "pos", fmt.Sprint(pos), "group", fmt.Sprint(g), "wcoff", fmt.Sprint(coff)),
				FreshRefs: true, Srcs: []string{sb.String(), ref},
				Judge: func(rs0 []*core.Result) core.Verdict {
					v := core.Verdict{}
					if core.ReportsError(rs0[0], nil) || core.ReportsError(rs0[1], nil) {
						v.Outcome = "diagnosed"
						return v
					}
					rs := rs0
					if coff {
						rs = make([]*core.Result, len(rs0))
						for i, r := range rs0 {
							x := *r
							f := parseCOFF(r.Out)
							if core.HardFailure(r) || len(f.Problems) > 0 || len(f.Sections) < 1 {
								v.Outcome = "bad_object"
								v.Fails = []core.Fail{{Facet: "mode_scope", Dev: "object_unreadable", Detail: strings.Join(f.Problems, "; ") + errSummary(r)}}
								return v
							}
							x.Out = f.sectionData(r.Out, 0)
							rs[i] = &x
						}
					}
					v.Outcome = "assembled"
					v.Nontrivial = len(rs[0].Out) > 0
					v.NTKey = fmt.Sprintf("%d|%d|%x", m, pos, rs[0].Out)
					if !bytes.Equal(rs[0].Out, rs[1].Out) {
						v.Fails = []core.Fail{{Facet: "mode_scope", Dev: "prelude_changes_mode", Detail: fmt.Sprintf("got %x want %x", rs[0].Out, rs[1].Out)}}
					}
					// sized for the mode: the label behind the group must hold its real offset
					for k, r := range rs[:2] {
						if s0 := findSentinel(r.Out, 0); s0 >= 0 && s0+12 <= len(r.Out) {
							if val := rdle(r.Out[s0+8 : s0+12]); val != int64(s0) {
								d := val - int64(s0)
								known := c17KnownSizeDrift[fmt.Sprintf("%d|%d", eff, g)]
								if d != known {
									v.Fails = append(v.Fails, core.Fail{Facet: "mode_sizing", Dev: fmt.Sprintf("label_drift:%+d", d-known),
										Detail: fmt.Sprintf("program %d: the label after the group holds %d, it really is at offset %d (instructions sized for another mode?)", k, val, s0)})
									break
								}
							}
						}
					}
					return v
				},
			}
		}})
	return scs
}

func init() {
	register(&Property{
		ID:        "C17",
		Scenarios: c17Scenarios,
		Assumptions: []string{
			"what a segment means under a single mode is C01's subject; here each segment assembled alone under its mode is the reference (differential oracle)",
			"the defect model 'last_bits_wins' (every segment emitted under the last BITS directive of the file) is recognised exactly: the observed output must equal the concatenation of the segments assembled alone under the last mode",
		},
	})
}
