package props

import (
	"bytes"
	"fmt"
	"strings"

	"verifengine/core"
)

// C15 — symbol names are arbitrary.

var c15Progs = []struct {
	name, tmpl string
	nsym       int
	coff       bool
}{
	{"label_uses", "{A}:\n\tJMP {A}\n\tMOV BX,{A}\n\tDW {A}\n\tDD {A}\n", 1, false},
	{"equ_chain", "{A} EQU 5\n{B} EQU {A}+1\n\tMOV AL,{A}\n\tDB {B}\n{C}:\n\tJE {C}\n", 3, false},
	{"forward", "\tJMP {B}\n{A}:\n\tDB 1\n{B}:\n\tCALL {A}\n\tMOV AX,{B}\n\tMOV BX,{C}\n\tDB 2\n{C}:\n\tHLT\n", 3, false},
	{"lgdt_data", "\tLGDT [{A}]\n\tDB 0\n{A}:\n\tDW 0\n\tDD {A}\n{B} EQU 0x0ff0\n\tMOV BYTE [{B}],8\n", 2, false},
	{"disp_resb", "{B} EQU 4\n{A}:\n\tMOV AX,[BX+{B}]\n\tRESB 0x20-$\n\tDW {A}\n{C} EQU {B}*2\n\tRESB {C}\n", 3, false},
	{"org_prog", "\tORG 0x7c00\n{A}:\n\tMOV SI,{B}\n\tJMP {C}\n{B}:\n\tDB \"x\",0\n{C}:\n\tJNZ {A}\n\tDW {B}\n", 3, false},
	{"mem_label", "\tMOV AX,[{A}]\n\tADD WORD [{B}],1\n\tCMP BYTE [{C}],0\n\tMOV [{A}],BX\n\tSUB CX,[{B}]\n\tNOT WORD [{C}]\n\tHLT\n{A}:\n\tDW 0\n{B}:\n\tDW 0\n{C}:\n\tDB 0\n", 3, false},
	{"char_literal", "{A}:\n\tMOV AL,'a'\n\tCMP AL,'z'\n\tMOV BX,{A}\n\tDB 'A','Z'\n{B}:\n\tMOV CX,'a'+1\n\tDW {B}\n", 2, false},
	// strings and character literals whose text is a name of the pool: a label of that name must not capture them
	{"strings_named_like_symbols", "{A}:\n\tDB 1\n{B}:\n\tDB \"a\",\"aa\",\"A\",\"kbd_wait\",0\n\tDB \"VALUE\",\"each\",\"ah\",\"dead\",\"INIT\",\"Z9\",\"a0h\"\n\tDB \"prefix89\",\"prefix89x\",\"AXIS\",\"FLAGS\",\"EQUAL\",\"a_\",\"aA\",\"Kick\"\n\tDB 'a','A'\n\tDW {A},{B}\n\tMOV SI,{B}\n\tJMP {A}\n", 2, false},
	// an EQU name that stands for a label (names of the pool that are prefixes of one another, with and without digits)
	{"equ_alias_of_label", "{B}:\n\tDB 1,2,3,4\n{A} EQU {B}\n\tMOV AX,[{A}]\n\tMOV BX,{A}\n\tMOV [{A}],AL\n\tJMP {A}\n\tCALL {A}\n\tHLT\n", 2, false},
	// the same name declared GLOBAL twice, among other names in every order of the pool
	{"wcoff_repeated_global", "[FORMAT \"WCOFF\"]\n[BITS 32]\n\tGLOBAL {A}, {B}\n\tGLOBAL {C}\n\tGLOBAL {B}\n[SECTION .text]\n{A}:\n\tNOP\n{B}:\n\tRET\n{C}:\n\tMOV ECX,[ESP+4]\n\tRET\n", 2, true},
	{"wcoff", "[FORMAT \"WCOFF\"]\n[INSTRSET \"i486p\"]\n[BITS 32]\n[FILE \"f.nas\"]\n\tGLOBAL {A}, {B}\n[SECTION .text]\n{A}:\n\tRET\n{B}:\n\tMOV EAX,1\n\tRET\n{C}:\n\tHLT\n", 3, true},
	{"wcoff_one_by_one", "[FORMAT \"WCOFF\"]\n[BITS 32]\n\tGLOBAL {C}\n\tGLOBAL {A}\n[SECTION .text]\n{A}:\n\tNOP\n{B}:\n\tRET\n{C}:\n\tMOV ECX,[ESP+4]\n\tRET\n", 3, true},
}

var c15Names = []string{"a", "aa", "a_", "A", "_a", "a1", "z", "Z9", "y_", "n234567890123456789012345678901234567890", "prefix89", "prefix89x", "prefix89y", "prefix89xy", "prefix89xyz", "kbd_wait", "mmio_done", "xmm_save", "Kick", "bnd_1", "zmm", "st_top", "cr_x", "dr7x",
	"n23456789012345678901234567890123456789X", "Aa", "aA",
	// upper-case names that contain a register name (AL in VALUE, BL in TABLE, GS in FLAGS, AX in MAXLEN, ES in RESULT, ...)
	"VALUE", "TABLE", "FLAGS", "MAXLEN", "RESULT", "XEAX", "CSEG", "AXIS", "ESP_SAVE", "CR0_COPY",
	// names that BEGIN with a register name, a mnemonic, a directive or a reserved word
	"AL1", "SPtr", "INIT", "RETRY", "ADDR", "MOVE", "CALLBACK", "DBG", "ORGX", "EQUAL", "DWORDS", "BYTES", "SHORTCUT", "NEARBY", "FARM", "GLOBALS", "EXTERNAL", "RESBUF", "PTR1", "HLTX",
	// names that could be read as numbers or as lower-case registers: hex digits (+ h), digits after a letter, ah/bh/ax in lower case
	"each", "beach", "a0h", "fach", "ah", "bx", "e820", "f00d", "dead", "x86", "b", "c2", "h"}

func c15Fill(tmpl string, names [3]string) string {
	s := strings.ReplaceAll(tmpl, "{A}", names[0])
	s = strings.ReplaceAll(s, "{B}", names[1])
	return strings.ReplaceAll(s, "{C}", names[2])
}

func c15Scenario(tier string) *core.Scenario {
	names := c15Names
	if tier != "thorough" {
		names = []string{"a", "aa", "a1", "A", "a_", "aA", "prefix89", "prefix89x", "prefix89xy", "n234567890123456789012345678901234567890", "n23456789012345678901234567890123456789X", "Z9", "kbd_wait", "mmio_done", "xmm_save", "Kick", "VALUE", "FLAGS", "MAXLEN", "AXIS", "INIT", "EQUAL", "SHORTCUT", "each", "a0h", "dead", "ah"}
	}
	ref := [3]string{"first_sym", "second_sym", "third_sym"}
	return &core.Scenario{
		Name: "renamings", Bound: -1,
		Rule:   "13 programs (labels and EQUs in every operand position, next to strings and character literals that spell names of the pool, flat and WCOFF with GLOBAL) x every injective assignment of their symbols into an adversarial name pool (one-letter names, names differing only in case, names that are prefixes/suffixes of each other, 8/9-byte and 40-byte names): flat output must be byte-identical to the reference naming; COFF must be identical except symbol-name fields and string table; non-trivial = assembled and differs from the reference naming",
		Bounds: map[string]any{"programs": len(c15Progs), "name_pool": names},
		Build: func(c *core.Chooser) *core.Case {
			p := c15Progs[c.Pick("prog", len(c15Progs))]
			var nm [3]string
			used := map[int]bool{}
			for i := 0; i < 3; i++ {
				if i >= p.nsym {
					nm[i] = ref[i]
					continue
				}
				// injective: choose among the names not used yet
				k := c.Pick(fmt.Sprintf("name%d", i), len(names)-len(used))
				idx := -1
				for j := range names {
					if used[j] {
						continue
					}
					if k == 0 {
						idx = j
						break
					}
					k--
				}
				used[idx] = true
				nm[i] = names[idx]
			}
			src, rsrc := c15Fill(p.tmpl, nm), c15Fill(p.tmpl, ref)
			return &core.Case{
				Key:       fmt.Sprintf("%s|%v", p.name, nm[:p.nsym]),
				Feat:      feat("prog", p.name, "a", nm[0], "b", nm[1], "c", nm[2]),
				FreshRefs: true, Srcs: []string{src, rsrc},
				Judge: func(rs []*core.Result) core.Verdict {
					v := core.Verdict{}
					r, rr := rs[0], rs[1]
					if core.HardFailure(rr) {
						v.Outcome = "reference_fails"
						v.Fails = []core.Fail{{Facet: "harness", Dev: "reference_naming_rejected", Detail: errSummary(rr)}}
						return v
					}
					if core.HardFailure(r) || core.ReportsError(r, rr) {
						v.Outcome = "renamed_diagnosed"
						v.Fails = []core.Fail{{Facet: "rename", Dev: "diagnosed_only_with_these_names", Detail: errSummary(r)}}
						return v
					}
					v.Outcome = "assembled"
					v.Nontrivial = len(rr.Out) > 0
					if !p.coff {
						if !bytes.Equal(r.Out, rr.Out) {
							v.Fails = []core.Fail{{Facet: "rename", Dev: "flat_bytes_differ", Detail: fmt.Sprintf("renamed %x reference %x", r.Out, rr.Out)}}
						}
						return v
					}
					fa, fb := parseCOFF(r.Out), parseCOFF(rr.Out)
					if len(fa.Problems) > 0 || len(fb.Problems) > 0 {
						v.Fails = []core.Fail{{Facet: "rename", Dev: "coff_unreadable", Detail: strings.Join(append(fa.Problems, fb.Problems...), "; ")}}
						return v
					}
					if !bytes.Equal(r.Out[:fa.PointerToSymbols], rr.Out[:fb.PointerToSymbols]) || fa.PointerToSymbols != fb.PointerToSymbols {
						v.Fails = append(v.Fails, core.Fail{Facet: "rename", Dev: "coff_body_differs", Detail: "header/sections/.text differ"})
					}
					if len(fa.Symbols) != len(fb.Symbols) {
						v.Fails = append(v.Fails, core.Fail{Facet: "rename", Dev: "coff_symbol_count", Detail: fmt.Sprintf("%d vs %d", len(fa.Symbols), len(fb.Symbols))})
						return v
					}
					back := map[string]string{nm[0]: ref[0], nm[1]: ref[1], nm[2]: ref[2]}
					for i := range fa.Symbols {
						sa, sb := fa.Symbols[i], fb.Symbols[i]
						if sa.Value != sb.Value || sa.Section != sb.Section || sa.Class != sb.Class || sa.Type != sb.Type || sa.NumAux != sb.NumAux {
							v.Fails = append(v.Fails, core.Fail{Facet: "rename", Dev: "coff_symbol_fields", Detail: fmt.Sprintf("symbol %d: %+v vs %+v", i, sa, sb)})
							break
						}
						want := sb.Name
						got := sa.Name
						if m, ok := back[got]; ok {
							got = m
						}
						if got != want {
							v.Fails = append(v.Fails, core.Fail{Facet: "rename", Dev: "coff_symbol_name", Detail: fmt.Sprintf("symbol %d is %q, expected the renamed form of %q", i, sa.Name, sb.Name)})
							break
						}
					}
					return v
				},
			}
		},
	}
}

// c15Twins: the grammar also admits '.' and '$' inside names. A jump to such a name is refused (the label
// placeholder of pass 2 cannot carry it), but in data and immediate positions they work - and must stay distinct from
// the name that has '_' in the same place, which is used as a jump target here.
func c15Twins() *core.Scenario {
	pairs := [][2]string{{"disk_err", "disk.err"}, {"a_b", "a.b"}, {"x_1", "x$1"}, {"_y", ".y"}, {"_y", "$y"}, {"p_q_r", "p.q_r"}, {"p_q_r", "p_q.r"}, {"w_", "w."}, {"k_9", "k.9"}}
	tmpls := []string{
		"\tORG 0x7c00\n\tJC {A}\n\tMOV SI,{B}\n\tHLT\n{A}:\n\tJMP {A}\n{B}:\n\tDB \"msg\",0\n\tDW {B},{A}\n\tCALL {A}\n",
		"{B}:\n\tDB 1,2,3,4,5,6,7,8,9,10,11,12,13,14,15,16,17,18,19,20\n{A}:\n\tNOP\n\tJNZ {A}\n\tMOV AX,[{B}]\n\tMOV BX,{B}\n\tJMP {A}\n",
		"[BITS 32]\n\tCALL {A}\n\tMOV EAX,{B}\n\tRET\n{B}:\n\tDD {B}\n\tRESB 200\n{A}:\n\tJE {A}\n\tDD {A},{B}\n\tRET\n",
	}
	return &core.Scenario{
		Name: "punctuation_twins", Bound: -1,
		Rule:   "9 pairs of names that differ only in '_' versus '.' or '$' at one place x 3 programs in which the '_' name is a jump/call target and the other one a data label used in immediates, data and memory operands (positions where such names assemble): flat output must be byte-identical to the neutral naming",
		Bounds: map[string]any{"pairs": pairs, "programs": len(tmpls)},
		Build: func(c *core.Chooser) *core.Case {
			pr := pairs[c.Pick("pair", len(pairs))]
			t := tmpls[c.Pick("prog", len(tmpls))]
			fill := func(a, b string) string { return strings.ReplaceAll(strings.ReplaceAll(t, "{A}", a), "{B}", b) }
			return &core.Case{
				Key:       fmt.Sprintf("twins|%s/%s|%d", pr[0], pr[1], c.Cost()),
				Feat:      feat("prog", "twins", "a", pr[0], "b", pr[1]),
				FreshRefs: true, Srcs: []string{fill(pr[0], pr[1]), fill("first_sym", "second_sym")},
				Judge: func(rs []*core.Result) core.Verdict {
					v := core.Verdict{}
					r, rr := rs[0], rs[1]
					if core.HardFailure(rr) || core.ReportsError(rr, nil) {
						v.Outcome = "reference_fails"
						v.Fails = []core.Fail{{Facet: "harness", Dev: "reference_naming_rejected", Detail: errSummary(rr)}}
						return v
					}
					if core.HardFailure(r) || core.ReportsError(r, rr) {
						v.Outcome = "renamed_diagnosed" // names with '.'/'$' are outside the property's quantifier: a refusal is not judged
						return v
					}
					v.Outcome = "assembled"
					v.Nontrivial = true
					if !bytes.Equal(r.Out, rr.Out) {
						v.Fails = []core.Fail{{Facet: "rename", Dev: "flat_bytes_differ", Detail: fmt.Sprintf("renamed %x reference %x", r.Out, rr.Out)}}
					}
					return v
				},
			}
		},
	}
}

func init() {
	register(&Property{
		ID:        "C15",
		Scenarios: func(tier string) []*core.Scenario { return []*core.Scenario{c15Scenario(tier), c15Twins()} },
		Assumptions: []string{
			"differential oracle: the same program with the neutral names first_sym/second_sym/third_sym is the reference",
			"the name pool avoids reserved words, registers and opcode prefixes, as the property's quantifier requires",
			"COFF files are read with an independent strict reader; symbol names are resolved through the string table",
		},
	})
}
