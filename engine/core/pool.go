// Package core: worker pool, choice-tree explorer, findings matcher, evidence writer.
package core

import (
	"bufio"
	"bytes"
	"crypto/sha256"
	"encoding/hex"
	"encoding/json"
	"fmt"
	"io"
	"os"
	"os/exec"
	"path/filepath"
	"regexp"
	"strings"
	"sync"
	"sync/atomic"
	"time"
)

// Op is one operation executed inside a worker process.
type Op struct {
	Src    []byte `json:"src"`
	Pre    []byte `json:"pre"`
	HasPre bool   `json:"has_pre"`
	Reuse  bool   `json:"reuse"`
	Digest bool   `json:"digest"`
}

// Result is what one assembly was observed to do.
type Result struct {
	Out        []byte           `json:"out"`
	OutExists  bool             `json:"out_exists"`
	Diag       string           `json:"diag"`   // log output (stderr of the CLI)
	Stdout     string           `json:"stdout"` // "GOSK : ..." messages etc.
	Panic      string           `json:"panic"`
	ParseErr   string           `json:"parse_err"`
	LOC        int32            `json:"loc"`
	Dollar     uint32           `json:"dollar"`
	Sym        map[string]int32 `json:"sym"`
	Format     string           `json:"format"`
	Digest     string           `json:"digest"`
	TreeBefore string           `json:"tree_before"`
	TreeAfter  string           `json:"tree_after"`
	Micros     int64            `json:"us"`
	// filled by the engine
	Died     bool   `json:"died,omitempty"`      // worker process ended while executing (os.Exit, fatal error)
	ExitCode int    `json:"exit_code,omitempty"` // exit status of the real CLI when Died or ViaCLI
	Timeout  bool   `json:"timeout,omitempty"`
	ViaCLI   bool   `json:"via_cli,omitempty"`
	Stderr   string `json:"stderr,omitempty"`
}

type proc struct {
	cmd    *exec.Cmd
	in     io.WriteCloser
	out    *bufio.Reader
	stderr *tailBuf
	dead   bool
	nops   int
}

type tailBuf struct {
	mu sync.Mutex
	b  []byte
}

func (t *tailBuf) Write(p []byte) (int, error) {
	t.mu.Lock()
	t.b = append(t.b, p...)
	if len(t.b) > 16384 {
		t.b = t.b[len(t.b)-8192:]
	}
	t.mu.Unlock()
	return len(p), nil
}
func (t *tailBuf) String() string { t.mu.Lock(); defer t.mu.Unlock(); return string(t.b) }

// Pool drives worker subprocesses (one per slot) built from /repo's working tree.
type Pool struct {
	WorkerBin string
	CLIBin    string
	TmpDir    string
	N         int
	OpTimeout time.Duration

	slots     chan *proc
	memo      sync.Map // src -> *memoEntry
	freshMemo sync.Map // src -> *memoEntry (ExecFresh)
	seq       atomic.Int64

	Execs      atomic.Int64 // assemblies executed on workers
	Deaths     atomic.Int64
	CLIRuns    atomic.Int64
	MemoHits   atomic.Int64
	FreshProcs atomic.Int64
	FreshRuns  atomic.Int64 // reference programs assembled as the only assembly of a fresh process
}

type memoEntry struct {
	once sync.Once
	res  *Result
}

func NewPool(workerBin, cliBin, tmpDir string, n int) *Pool {
	p := &Pool{WorkerBin: workerBin, CLIBin: cliBin, TmpDir: tmpDir, N: n, OpTimeout: 60 * time.Second}
	p.slots = make(chan *proc, n)
	for i := 0; i < n; i++ {
		p.slots <- nil
	}
	return p
}

func (p *Pool) spawn() (*proc, error) {
	cmd := exec.Command(p.WorkerBin)
	cmd.Env = append(os.Environ(), "GOMAXPROCS=1", "TMPDIR="+p.TmpDir, "GOTRACEBACK=single")
	in, err := cmd.StdinPipe()
	if err != nil {
		return nil, err
	}
	out, err := cmd.StdoutPipe()
	if err != nil {
		return nil, err
	}
	tb := &tailBuf{}
	cmd.Stderr = tb
	if err := cmd.Start(); err != nil {
		return nil, err
	}
	p.FreshProcs.Add(1)
	return &proc{cmd: cmd, in: in, out: bufio.NewReaderSize(out, 1<<20), stderr: tb}, nil
}

func (pr *proc) kill() {
	if pr == nil || pr.dead {
		return
	}
	pr.dead = true
	pr.in.Close()
	pr.cmd.Process.Kill()
	pr.cmd.Wait()
}

// call sends ops to the process; returns results, and ok=false when the process died / timed out.
func (p *Pool) call(pr *proc, ops []Op, timeout time.Duration) (res []Result, ok bool, timedOut bool) {
	req, _ := json.Marshal(struct {
		Ops []Op `json:"ops"`
	}{ops})
	req = append(req, '\n')
	type rd struct {
		line []byte
		err  error
	}
	ch := make(chan rd, 1)
	go func() {
		if _, err := pr.in.Write(req); err != nil {
			ch <- rd{nil, err}
			return
		}
		line, err := pr.out.ReadBytes('\n')
		ch <- rd{line, err}
	}()
	select {
	case r := <-ch:
		if r.err != nil || len(r.line) == 0 {
			pr.in.Close()
			pr.cmd.Wait()
			pr.dead = true
			return nil, false, false
		}
		var resp struct {
			Res []Result `json:"res"`
		}
		if err := json.Unmarshal(r.line, &resp); err != nil {
			pr.kill()
			return nil, false, false
		}
		pr.nops += len(ops)
		return resp.Res, true, false
	case <-time.After(timeout):
		pr.kill()
		return nil, false, true
	}
}

// Exec assembles src on some live worker (memoised per source text for the whole run).
// If the worker process ends while executing it (os.Exit inside frontend.Exec, fatal error),
// the case is re-run through the real CLI and that observation is returned with Died=true.
func (p *Pool) Exec(src string) *Result {
	v, _ := p.memo.LoadOrStore(src, &memoEntry{})
	e := v.(*memoEntry)
	hit := true
	e.once.Do(func() {
		hit = false
		e.res = p.execNoMemo(src)
	})
	if hit {
		p.MemoHits.Add(1)
	}
	return e.res
}

// ExecFresh assembles src as the only assembly of a fresh worker process (memoised per source text, separately
// from Exec). If the process dies, the observation comes from the real CLI, as for Exec.
func (p *Pool) ExecFresh(src string) *Result {
	v, _ := p.freshMemo.LoadOrStore(src, &memoEntry{})
	e := v.(*memoEntry)
	hit := true
	e.once.Do(func() {
		hit = false
		p.FreshRuns.Add(1)
		out, died := p.History([]Op{{Src: []byte(src)}})
		if died || len(out) == 0 {
			r := p.CLI(src, nil, false)
			r.Died = true
			e.res = r
			return
		}
		e.res = &out[0]
	})
	if hit {
		p.MemoHits.Add(1)
	}
	return e.res
}

// ExecTimed assembles src once (no memo) with its own timeout (scaling experiments).
func (p *Pool) ExecTimed(src string, timeout time.Duration) *Result {
	old := p.OpTimeout
	_ = old
	return p.execWith(src, timeout)
}

func (p *Pool) execNoMemo(src string) *Result { return p.execWith(src, p.OpTimeout) }

func (p *Pool) execWith(src string, timeout time.Duration) *Result {
	pr := <-p.slots
	defer func() { p.slots <- pr }()
	if pr == nil || pr.dead {
		var err error
		pr, err = p.spawn()
		if err != nil {
			Fatalf("cannot start worker: %v", err)
		}
	}
	p.Execs.Add(1)
	res, ok, to := p.call(pr, []Op{{Src: []byte(src)}}, timeout)
	if ok {
		return &res[0]
	}
	p.Deaths.Add(1)
	stderrTail := pr.stderr.String()
	pr = nil
	if to {
		return &Result{Timeout: true, Died: true, Stderr: stderrTail}
	}
	r := p.CLI(src, nil, false)
	r.Died = true
	if r.Stderr == "" {
		r.Stderr = stderrTail
	}
	return r
}

// History runs ops in order on one fresh worker process, which is then ended.
// If the process dies, the results obtained so far are returned and died=true.
func (p *Pool) History(ops []Op) (out []Result, died bool) {
	pr := <-p.slots
	defer func() { p.slots <- pr }()
	fresh, err := p.spawn()
	if err != nil {
		Fatalf("cannot start worker: %v", err)
	}
	defer fresh.kill()
	for _, o := range ops {
		p.Execs.Add(1)
		res, ok, _ := p.call(fresh, []Op{o}, p.OpTimeout)
		if !ok {
			p.Deaths.Add(1)
			return out, true
		}
		out = append(out, res[0])
	}
	return out, false
}

// Live is a worker process owned by the caller for a long chain of operations (C10).
type Live struct {
	p  *Pool
	pr *proc
}

func (p *Pool) NewLive() *Live {
	pr, err := p.spawn()
	if err != nil {
		Fatalf("cannot start worker: %v", err)
	}
	return &Live{p, pr}
}
func (l *Live) Do(o Op) (*Result, bool) {
	l.p.Execs.Add(1)
	res, ok, _ := l.p.call(l.pr, []Op{o}, l.p.OpTimeout)
	if !ok {
		l.p.Deaths.Add(1)
		return nil, false
	}
	return &res[0], true
}
func (l *Live) Close() { l.pr.kill() }

// CLI runs the real gosk command on src in a private directory.
// pre (optional) pre-fills the destination. The observation mirrors Result.
func (p *Pool) CLI(src string, pre []byte, hasPre bool) *Result {
	p.CLIRuns.Add(1)
	dir := filepath.Join(p.TmpDir, fmt.Sprintf("cli%d", p.seq.Add(1)))
	os.MkdirAll(dir, 0o755)
	defer os.RemoveAll(dir)
	srcPath := filepath.Join(dir, "in.nas")
	dstPath := filepath.Join(dir, "out.bin")
	os.WriteFile(srcPath, []byte(src), 0o644)
	if hasPre {
		os.WriteFile(dstPath, pre, 0o644)
	}
	cmd := exec.Command(p.CLIBin, srcPath, dstPath)
	cmd.Env = append(os.Environ(), "GOTRACEBACK=single")
	var so, se bytes.Buffer
	cmd.Stdout = &so
	cmd.Stderr = &se
	done := make(chan error, 1)
	start := time.Now()
	if err := cmd.Start(); err != nil {
		Fatalf("cannot start CLI: %v", err)
	}
	go func() { done <- cmd.Wait() }()
	r := &Result{ViaCLI: true}
	select {
	case <-done:
	case <-time.After(p.OpTimeout * 2):
		cmd.Process.Kill()
		<-done
		r.Timeout = true
	}
	r.Micros = time.Since(start).Microseconds()
	r.ExitCode = cmd.ProcessState.ExitCode()
	r.Stdout = so.String()
	r.Stderr = se.String()
	r.Diag = r.Stderr
	if strings.Contains(r.Stderr, "panic:") || strings.Contains(r.Stderr, "fatal error:") {
		r.Panic = firstLines(r.Stderr[strings.IndexAny(r.Stderr, "pf"):], 30)
		if i := strings.Index(r.Stderr, "panic:"); i >= 0 {
			r.Panic = firstLines(r.Stderr[i:], 30)
		} else if i := strings.Index(r.Stderr, "fatal error:"); i >= 0 {
			r.Panic = firstLines(r.Stderr[i:], 30)
		}
	}
	if i := strings.Index(r.Stdout, "GOSK : failed to parse"); i >= 0 {
		r.ParseErr = r.Stdout[i:]
	}
	if b, err := os.ReadFile(dstPath); err == nil {
		r.Out = b
		r.OutExists = true
	}
	return r
}

// RunCLIArgs runs the real CLI with arbitrary arguments in directory dir (C19).
func (p *Pool) RunCLIArgs(dir string, args []string) (exit int, stdout, stderr string, timedOut bool) {
	p.CLIRuns.Add(1)
	cmd := exec.Command(p.CLIBin, args...)
	cmd.Dir = dir
	cmd.Env = append(os.Environ(), "GOTRACEBACK=single")
	var so, se bytes.Buffer
	cmd.Stdout = &so
	cmd.Stderr = &se
	if err := cmd.Start(); err != nil {
		Fatalf("cannot start CLI: %v", err)
	}
	done := make(chan error, 1)
	go func() { done <- cmd.Wait() }()
	select {
	case <-done:
	case <-time.After(p.OpTimeout * 2):
		cmd.Process.Kill()
		<-done
		timedOut = true
	}
	return cmd.ProcessState.ExitCode(), so.String(), se.String(), timedOut
}

func (p *Pool) Close() {
	for i := 0; i < p.N; i++ {
		pr := <-p.slots
		if pr != nil {
			pr.kill()
		}
	}
}

func firstLines(s string, n int) string {
	lines := strings.SplitN(s, "\n", n+1)
	if len(lines) > n {
		lines = lines[:n]
	}
	return strings.Join(lines, "\n")
}

// ---------------------------------------------------------------------------------------------
// What counts as "gosk reported an error" (DESIGN.md section 5)

var logLineRe = regexp.MustCompile(`^\[\s*(\w+)\s*\]\s?(.*)$`)
var errWordRe = regexp.MustCompile(`(?i)^(error|err:)`)
var warnWordRe = regexp.MustCompile(`(?i)^(warning|warn)`)

// DiagLines returns the normalised diagnostic lines of r: errs = colog level error/alert or a
// message starting (any case) with error/err: ; warns = level warning or message starting with warn.
func DiagLines(r *Result) (errs, warns []string) {
	for _, ln := range strings.Split(r.Diag, "\n") {
		ln = strings.TrimRight(ln, "\r")
		if ln == "" {
			continue
		}
		lvl, msg := "", ln
		if m := logLineRe.FindStringSubmatch(ln); m != nil {
			lvl, msg = strings.ToLower(m[1]), m[2]
		}
		msg = strings.TrimSpace(msg)
		switch {
		case lvl == "error" || lvl == "alert" || errWordRe.MatchString(msg):
			errs = append(errs, lvl+"|"+msg)
		case lvl == "warn" || lvl == "warning" || warnWordRe.MatchString(msg):
			warns = append(warns, lvl+"|"+msg)
		}
	}
	return
}

// ErrLines: error-class and warning-class lines together.
func ErrLines(r *Result) []string {
	e, w := DiagLines(r)
	return append(e, w...)
}

// HardFailure: the run failed in a way that needs no attribution (non-zero exit, GOSK message,
// parse error, panic, timeout).
func HardFailure(r *Result) bool {
	return r.Died && r.ExitCode != 0 || r.ViaCLI && r.ExitCode != 0 || r.Timeout || r.ParseErr != "" || r.Panic != "" || strings.Contains(r.Stdout, "GOSK :")
}

func newLines(lines []string, base []string) bool {
	if len(lines) == 0 {
		return false
	}
	m := map[string]int{}
	for _, l := range base {
		m[l]++
	}
	for _, l := range lines {
		if m[l] > 0 {
			m[l]--
			continue
		}
		return true
	}
	return false
}

// ReportsError: hard failure, or an error-class diagnostic line not also produced by the baseline
// run (the same program without the statement under test; nil = no baseline). Warnings do not count.
func ReportsError(r, baseline *Result) bool {
	if HardFailure(r) {
		return true
	}
	e, _ := DiagLines(r)
	var be []string
	if baseline != nil {
		be, _ = DiagLines(baseline)
	}
	return newLines(e, be)
}

// ReportsDiag: like ReportsError but warning-class lines count too (C07: "a diagnostic").
func ReportsDiag(r, baseline *Result) bool {
	if HardFailure(r) {
		return true
	}
	var b []string
	if baseline != nil {
		b = ErrLines(baseline)
	}
	return newLines(ErrLines(r), b)
}

func Sha(b []byte) string {
	h := sha256.Sum256(b)
	return hex.EncodeToString(h[:8])
}

func Fatalf(format string, a ...any) {
	fmt.Fprintf(os.Stderr, "HARNESS-ERROR: "+format+"\n", a...)
	os.Exit(3)
}
