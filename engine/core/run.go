package core

import (
	"encoding/json"
	"fmt"
	"hash/fnv"
	"os"
	"path/filepath"
	"sort"
	"strings"
	"sync"
	"time"
)

type Config struct {
	Prop     string
	Tier     string
	Seed     int
	VerifDir string
	Triage   bool
	Deadline time.Time
	Pool     *Pool
}

type failRec struct {
	Scenario string
	Key      string
	Path     []int
	Feat     map[string]string
	Srcs     []string
	Fail     Fail
	Index    int
}

type scenStat struct {
	Name        string         `json:"name"`
	Rule        string         `json:"rule,omitempty"`
	Bounds      map[string]any `json:"bounds,omitempty"`
	DevBound    int            `json:"deviation_bound_completed"`
	States      int64          `json:"states"`
	Transitions int64          `json:"transitions"`
	Cases       int64          `json:"cases"`
	Pruned      int64          `json:"pruned_infeasible"`
	Skipped     int64          `json:"outside_model_not_judged"`
	Nontrivial  int64          `json:"nontrivial"`
	Outcomes    int            `json:"distinct_outcomes"`
	FailedCases int64          `json:"cases_with_failed_facets"`
	Exhaustive  bool           `json:"exhaustive"`
	WallS       float64        `json:"wall_s"`
}

// Run accumulates everything one check invocation does.
type Run struct {
	Cfg         Config
	Findings    []*Finding
	start       time.Time
	scen        []*scenStat
	fails       []failRec
	samples     []any
	ntKeys      map[uint64]struct{}
	outcomes    map[string]int
	facetFail   map[string]int
	capsHit     []string
	Extra       map[string]any
	Assumptions []string
	violations  int
	mu          sync.Mutex
	scenarios   map[string]*Scenario
}

func NewRun(cfg Config) *Run {
	r := &Run{Cfg: cfg, start: time.Now(), ntKeys: map[uint64]struct{}{}, outcomes: map[string]int{},
		facetFail: map[string]int{}, Extra: map[string]any{}, scenarios: map[string]*Scenario{}}
	r.Findings = LoadFindings(filepath.Join(cfg.VerifDir, "known_findings.jsonl"), cfg.Prop)
	return r
}

func h64(s string) uint64 { h := fnv.New64a(); h.Write([]byte(s)); return h.Sum64() }

func (r *Run) Register(sc *Scenario) { r.scenarios[sc.Name] = sc }

// RunScenario explores the whole scenario: every case is executed on the real code and judged.
func (r *Run) RunScenario(sc *Scenario) {
	r.Register(sc)
	t0 := time.Now()
	st := &scenStat{Name: sc.Name, Rule: sc.Rule, Bounds: sc.Bounds, DevBound: sc.Bound, Exhaustive: true}
	r.scen = append(r.scen, st)
	type item struct {
		cs *Case
	}
	ch := make(chan *Case, 256)
	var wg sync.WaitGroup
	outcomes := map[string]int{}
	outSamples := map[string][]string{}
	var expl ExploreStats
	capped := false
	go func() {
		defer close(ch)
		defer func() {
			if e := recover(); e != nil {
				if e == errDeadline {
					capped = true
					return
				}
				panic(e)
			}
		}()
		n := 0
		expl = Enumerate(sc, func(cs *Case) {
			n++
			if n%64 == 0 && !r.Cfg.Deadline.IsZero() && time.Now().After(r.Cfg.Deadline) {
				panic(errDeadline)
			}
			ch <- cs
		})
	}()
	nw := r.Cfg.Pool.N
	for w := 0; w < nw; w++ {
		wg.Add(1)
		go func() {
			defer wg.Done()
			for cs := range ch {
				rs := make([]*Result, len(cs.Srcs))
				for i, s := range cs.Srcs {
					if (cs.FreshRefs && i > 0) || cs.FreshAll {
						rs[i] = r.Cfg.Pool.ExecFresh(s)
					} else {
						rs[i] = r.Cfg.Pool.Exec(s)
					}
				}
				for _, x := range rs {
					if x.Micros > 5000000 {
						fmt.Printf("NOTE: slow case (%.1fs): %s\n", float64(x.Micros)/1e6, oneLine(cs.Key))
					}
					if x.Timeout {
						fmt.Printf("NOTE: no answer within %v for case %s\n", r.Cfg.Pool.OpTimeout, oneLine(cs.Key))
					}
				}
				v := cs.Judge(rs)
				r.mu.Lock()
				st.Cases++
				if v.Skipped {
					st.Skipped++
				}
				if v.Nontrivial {
					st.Nontrivial++
					k := v.NTKey
					if k == "" {
						k = cs.Key
					}
					r.ntKeys[h64(sc.Name+"|"+k)] = struct{}{}
				}
				outcomes[v.Outcome]++
				if r.Cfg.Triage && len(outSamples[v.Outcome]) < 400 {
					outSamples[v.Outcome] = append(outSamples[v.Outcome], cs.Key+"  ## "+firstDiag(rs))
				}
				if len(v.Fails) > 0 {
					st.FailedCases++
				}
				for _, f := range v.Fails {
					r.facetFail[f.Facet]++
					r.fails = append(r.fails, failRec{sc.Name, cs.Key, cs.Path, cs.Feat, cs.Srcs, f, cs.Index})
				}
				if cs.Index < 2 || (cs.Index%997) == (r.Cfg.Seed%997) {
					if len(r.samples) < 12 {
						r.samples = append(r.samples, map[string]any{"scenario": sc.Name, "case": cs.Key, "srcs": cs.Srcs, "outcome": v.Outcome})
					}
				}
				r.mu.Unlock()
			}
		}()
	}
	wg.Wait()
	st.States, st.Transitions, st.Pruned = expl.States, expl.Transitions, expl.Pruned
	if capped {
		st.Exhaustive = false
		st.States = st.Cases + 1
		st.Transitions = st.Cases
		r.capsHit = append(r.capsHit, fmt.Sprintf("scenario %s stopped by the internal deadline after %d cases", sc.Name, st.Cases))
	}
	st.Outcomes = len(outcomes)
	for k, v := range outcomes {
		r.outcomes[sc.Name+"/"+k] += v
	}
	st.WallS = time.Since(t0).Seconds()
	if r.Cfg.Triage {
		for o, ks := range outSamples {
			if o == "ok" || o == "assembled" {
				continue
			}
			sort.Strings(ks)
			step := len(ks)/8 + 1
			for i := 0; i < len(ks); i += step {
				fmt.Printf("   outcome[%s] %s\n", o, oneLine(ks[i]))
			}
		}
	}
	fmt.Printf("scenario %-28s cases=%d states=%d transitions=%d nontrivial=%d outcomes=%d failed_cases=%d skipped=%d exhaustive=%v %.1fs\n",
		sc.Name, st.Cases, st.States, st.Transitions, st.Nontrivial, st.Outcomes, st.FailedCases, st.Skipped, st.Exhaustive, st.WallS)
}

var errDeadline = fmt.Errorf("deadline")

// AddCustom lets non-choice-tree explorations (C10 histories, C19 spawns) report their coverage.
func (r *Run) AddCustom(name, rule string, bounds map[string]any, states, transitions, cases, nontrivial int64, outcomes int, exhaustive bool, wall float64) {
	r.scen = append(r.scen, &scenStat{Name: name, Rule: rule, Bounds: bounds, DevBound: -1, States: states, Transitions: transitions,
		Cases: cases, Nontrivial: nontrivial, Outcomes: outcomes, Exhaustive: exhaustive, WallS: wall})
	fmt.Printf("scenario %-28s cases=%d states=%d transitions=%d nontrivial=%d outcomes=%d exhaustive=%v %.1fs\n", name, cases, states, transitions, nontrivial, outcomes, exhaustive, wall)
}

func (r *Run) AddNT(key string) { r.mu.Lock(); r.ntKeys[h64(key)] = struct{}{}; r.mu.Unlock() }
func (r *Run) AddSample(s any) {
	r.mu.Lock()
	if len(r.samples) < 16 {
		r.samples = append(r.samples, s)
	}
	r.mu.Unlock()
}
func (r *Run) AddCap(s string) { r.mu.Lock(); r.capsHit = append(r.capsHit, s); r.mu.Unlock() }
func (r *Run) AddFail(scen, key string, feat map[string]string, srcs []string, f Fail) {
	r.mu.Lock()
	r.facetFail[f.Facet]++
	r.fails = append(r.fails, failRec{scen, key, nil, feat, srcs, f, len(r.fails)})
	r.mu.Unlock()
}

// confirm re-executes a failing choice-tree case on fresh worker processes (twice) and checks the
// same facet fails with the same deviation; it also runs the real CLI and compares the bytes.
func (r *Run) confirm(fr *failRec) (confirmed bool, note string) {
	sc := r.scenarios[fr.Scenario]
	if sc == nil || fr.Path == nil {
		return true, "custom scenario (confirmed by its own explorer)"
	}
	for round := 0; round < 2; round++ {
		cs := BuildPath(sc, fr.Path)
		if cs == nil {
			return false, "case could not be rebuilt"
		}
		rs := make([]*Result, len(cs.Srcs))
		for i, s := range cs.Srcs {
			out, died := r.Cfg.Pool.History([]Op{{Src: []byte(s)}})
			if died || len(out) == 0 {
				x := r.Cfg.Pool.CLI(s, nil, false)
				x.Died = true
				rs[i] = x
			} else {
				rs[i] = &out[0]
			}
		}
		v := cs.Judge(rs)
		found := false
		for _, f := range v.Fails {
			if f.Facet == fr.Fail.Facet && f.Dev == fr.Fail.Dev {
				found = true
			}
		}
		if !found {
			// not reproducible as the only assembly of a process: try it behind the cases that precede it
			// in canonical order (a history-dependent failure; the history is deterministic)
			if round == 0 && r.reproducesBehindPredecessors(sc, fr) {
				return true, "HISTORY-DEPENDENT: reproduces only after the preceding cases of the scenario were assembled in the same process (see also C10)"
			}
			return false, fmt.Sprintf("did not reproduce on a fresh worker (round %d) nor behind its predecessors", round)
		}
		if round == 0 {
			for i, s := range cs.Srcs {
				c := r.Cfg.Pool.CLI(s, nil, false)
				if !rs[i].Died && string(c.Out) != string(rs[i].Out) {
					note = "CLI bytes differ from worker bytes"
				}
			}
		}
	}
	return true, note
}

// reproducesBehindPredecessors re-runs the failing case on ONE fresh worker after the (up to 40)
// cases that precede it in canonical order, twice, and reports whether the same facet fails both times.
func (r *Run) reproducesBehindPredecessors(sc *Scenario, fr *failRec) bool {
	const k = 40
	var prev [][]string
	func() {
		defer func() { recover() }()
		Enumerate(sc, func(cs *Case) {
			if cs.Index >= fr.Index {
				panic("stop")
			}
			prev = append(prev, cs.Srcs)
			if len(prev) > k {
				prev = prev[1:]
			}
		})
	}()
	for round := 0; round < 2; round++ {
		cs := BuildPath(sc, fr.Path)
		if cs == nil {
			return false
		}
		var ops []Op
		for _, srcs := range prev {
			for _, s := range srcs {
				ops = append(ops, Op{Src: []byte(s)})
			}
		}
		base := len(ops)
		for _, s := range cs.Srcs {
			ops = append(ops, Op{Src: []byte(s)})
		}
		out, died := r.Cfg.Pool.History(ops)
		if died || len(out) != len(ops) {
			return false
		}
		rs := make([]*Result, len(cs.Srcs))
		for i := range cs.Srcs {
			rs[i] = &out[base+i]
		}
		v := cs.Judge(rs)
		found := false
		for _, f := range v.Fails {
			if f.Facet == fr.Fail.Facet && f.Dev == fr.Fail.Dev {
				found = true
			}
		}
		if !found {
			return false
		}
	}
	return true
}

// Finish matches failures against the known findings, confirms and reports the rest, writes the
// evidence file and returns the exit status.
func (r *Run) Finish() int {
	sort.SliceStable(r.fails, func(i, j int) bool {
		if r.fails[i].Scenario != r.fails[j].Scenario {
			return r.fails[i].Scenario < r.fails[j].Scenario
		}
		return r.fails[i].Index < r.fails[j].Index
	})
	var unmatched []*failRec
	for i := range r.fails {
		fr := &r.fails[i]
		hit := false
		for _, fd := range r.Findings {
			if fd.Match(fr.Feat, &fr.Fail) {
				fd.Hits++
				if fd.First == "" {
					fd.First = fr.Key
				}
				hit = true
				break
			}
		}
		if !hit {
			unmatched = append(unmatched, fr)
		}
	}
	if r.Cfg.Triage {
		r.triage(unmatched)
		r.violations = len(unmatched)
		r.writeEvidence(nil)
		if len(unmatched) > 0 {
			return 2
		}
		return 0
	}
	known := []map[string]any{}
	for _, fd := range r.Findings {
		if fd.Kind == "finding" && fd.Hits > 0 {
			fmt.Printf("KNOWN-FINDING: property=%s %s %s (%d cases, e.g. %s)\n", r.Cfg.Prop, fd.ID, short(fd.What, 160), fd.Hits, oneLine(fd.First))
			known = append(known, map[string]any{"id": fd.ID, "cases": fd.Hits, "first": fd.First})
		}
	}
	const maxReport = 25
	reported := 0
	unconfirmed := 0
	replayDir := filepath.Join(r.Cfg.VerifDir, "replays", r.Cfg.Prop)
	// group by signature (scenario, facet, deviation), keeping canonical order inside each group
	var sigOrder []string
	groups := map[string][]*failRec{}
	for _, fr := range unmatched {
		sig := fr.Scenario + "|" + fr.Fail.Facet + "|" + fr.Fail.Dev
		if _, ok := groups[sig]; !ok {
			sigOrder = append(sigOrder, sig)
		}
		groups[sig] = append(groups[sig], fr)
	}
	report := func(fr *failRec, note string) {
		r.violations++
		if reported >= maxReport {
			return
		}
		reported++
		os.MkdirAll(replayDir, 0o755)
		name := Sha([]byte(fr.Scenario + "|" + fr.Key + "|" + fr.Fail.Facet))
		path := filepath.Join(replayDir, name+".json")
		rep := map[string]any{"property": r.Cfg.Prop, "tier": r.Cfg.Tier, "scenario": fr.Scenario, "case": fr.Key, "path": fr.Path,
			"features": fr.Feat, "facet": fr.Fail.Facet, "deviation": fr.Fail.Dev, "detail": fr.Fail.Detail, "srcs": fr.Srcs, "note": note,
			"cli": "gosk <src.nas> <out.bin> for each entry of srcs"}
		b, _ := json.MarshalIndent(rep, "", " ")
		os.WriteFile(path, b, 0o644)
		for i, s := range fr.Srcs {
			os.WriteFile(filepath.Join(replayDir, fmt.Sprintf("%s.%d.nas", name, i)), []byte(s), 0o644)
		}
		fmt.Printf("VIOLATION property=%s replay=%s\n", r.Cfg.Prop, path)
		fmt.Printf("  case: %s\n  facet=%s deviation=%s\n  %s\n", oneLine(fr.Key), fr.Fail.Facet, fr.Fail.Dev, oneLine(fr.Fail.Detail))
		if note != "" {
			fmt.Printf("  note: %s\n", note)
		}
	}
	for _, sig := range sigOrder {
		g := groups[sig]
		confirmedHere, tried := 0, 0
		const batch, maxTries, wantConfirmed = 16, 480, 3
		for tried < len(g) && tried < maxTries && confirmedHere < wantConfirmed {
			end := tried + batch
			if end > len(g) {
				end = len(g)
			}
			type cr struct {
				ok   bool
				note string
			}
			res := make([]cr, end-tried)
			var wg sync.WaitGroup
			for i := tried; i < end; i++ {
				wg.Add(1)
				go func(i int) {
					defer wg.Done()
					ok, note := r.confirm(g[i])
					res[i-tried] = cr{ok, note}
				}(i)
			}
			wg.Wait()
			for i := tried; i < end; i++ {
				if res[i-tried].ok {
					if confirmedHere < wantConfirmed {
						report(g[i], res[i-tried].note)
					} else {
						r.violations++
					}
					confirmedHere++
				} else {
					unconfirmed++
					if unconfirmed <= 6 {
						fmt.Printf("NOTE: unconfirmed failure (not reported as violation): %s [%s] %s: %s\n", oneLine(g[i].Key), g[i].Fail.Facet, g[i].Fail.Dev, res[i-tried].note)
					}
				}
			}
			tried = end
		}
		if confirmedHere > 0 {
			r.violations += len(g) - tried // the rest of a confirmed signature is counted without individual confirmation
		} else if len(g) > tried {
			unconfirmed += len(g) - tried
		}
	}
	if unconfirmed > 6 {
		fmt.Printf("NOTE: %d failures in all could not be confirmed on fresh processes (history-dependent behaviour is C10's subject)\n", unconfirmed)
	}
	if r.violations > reported {
		fmt.Printf("(%d further unmatched failures not listed individually; see evidence)\n", r.violations-reported)
	}
	r.Extra["unconfirmed_failures"] = unconfirmed
	r.writeEvidence(known)
	if r.violations > 0 {
		return 1
	}
	return 0
}

func oneLine(s string) string {
	s = strings.ReplaceAll(s, "\n", "\\n")
	if len(s) > 300 {
		s = s[:300] + "..."
	}
	return s
}

func (r *Run) triage(unmatched []*failRec) {
	type cl struct {
		n     int
		first *failRec
		feats map[string]map[string]int
	}
	m := map[string]*cl{}
	var order []string
	for _, fr := range unmatched {
		k := fr.Scenario + " | " + fr.Fail.Facet + " | " + fr.Fail.Dev
		for _, sf := range strings.Split(os.Getenv("VERIF_SPLIT"), ",") {
			if sf != "" {
				k += " | " + sf + "=" + fr.Feat[sf]
			}
		}
		c := m[k]
		if c == nil {
			c = &cl{first: fr, feats: map[string]map[string]int{}}
			m[k] = c
			order = append(order, k)
		}
		c.n++
		for fk, fv := range fr.Feat {
			if c.feats[fk] == nil {
				c.feats[fk] = map[string]int{}
			}
			c.feats[fk][fv]++
		}
	}
	sort.SliceStable(order, func(i, j int) bool { return m[order[i]].n > m[order[j]].n })
	if pf := os.Getenv("VERIF_PROPOSE"); pf != "" {
		f, _ := os.Create(pf)
		for i, k := range order {
			c := m[k]
			cell := map[string][]string{}
			for fk, vals := range c.feats {
				if len(vals) > 400 {
					continue
				}
				for v := range vals {
					cell[fk] = append(cell[fk], v)
				}
				sort.Strings(cell[fk])
			}
			e := map[string]any{"kind": "finding", "property": r.Cfg.Prop, "id": fmt.Sprintf("%s-P%03d", r.Cfg.Prop, i+1), "scenario": c.first.Scenario,
				"facet": c.first.Fail.Facet, "deviation": c.first.Fail.Dev, "cell": cell, "what": "TODO",
				"witness": map[string]any{"case": c.first.Key, "srcs": c.first.Srcs, "detail": c.first.Fail.Detail, "cases": c.n}}
			b, _ := json.Marshal(e)
			f.Write(append(b, '\n'))
		}
		f.Close()
	}
	fmt.Printf("=== TRIAGE: %d unmatched failures in %d clusters ===\n", len(unmatched), len(order))
	for _, k := range order {
		c := m[k]
		fmt.Printf("--- %d x %s\n    e.g. %s\n    detail: %s\n", c.n, k, oneLine(c.first.Key), oneLine(c.first.Fail.Detail))
		var fks []string
		for fk := range c.feats {
			fks = append(fks, fk)
		}
		sort.Strings(fks)
		for _, fk := range fks {
			vals := c.feats[fk]
			var vs []string
			for v, n := range vals {
				vs = append(vs, fmt.Sprintf("%s(%d)", v, n))
			}
			sort.Strings(vs)
			if len(vs) > 24 {
				vs = append(vs[:24], fmt.Sprintf("…+%d", len(vs)-24))
			}
			fmt.Printf("      %s: %s\n", fk, strings.Join(vs, " "))
		}
	}
}

func (r *Run) writeEvidence(known []map[string]any) {
	var states, trans, cases, nontrivAll int64
	exhaustive := true
	devb := -1
	for _, s := range r.scen {
		states += s.States
		trans += s.Transitions
		cases += s.Cases
		nontrivAll += s.Nontrivial
		if !s.Exhaustive {
			exhaustive = false
		}
		if s.DevBound > devb {
			devb = s.DevBound
		}
	}
	if states < 1 {
		states = 1
	}
	if trans < 1 {
		trans = 1
	}
	var rules []string
	for _, s := range r.scen {
		if s.Rule != "" {
			rules = append(rules, s.Name+": "+s.Rule)
		}
	}
	if len(r.samples) == 0 {
		r.samples = append(r.samples, "no case was generated")
	}
	p := r.Cfg.Pool
	cov := map[string]any{
		"states": states, "transitions": trans,
		"traces_validated_against_impl": p.Execs.Load() + p.CLIRuns.Load(),
		"samples":                       r.samples,
		"evaluations":                   cases,
		"distinct_nontrivial":           len(r.ntKeys),
		"rule":                          strings.Join(rules, " || "),
		"exhaustive":                    exhaustive,
		"scenarios":                     r.scen,
		"facet_failures":                r.facetFail,
		"known_findings_matched":        known,
		"caps_hit":                      r.capsHit,
		"worker_assemblies":             p.Execs.Load(),
		"worker_memo_hits":              p.MemoHits.Load(),
		"worker_deaths_attributed":      p.Deaths.Load(),
		"cli_runs":                      p.CLIRuns.Load(),
		"fresh_processes":               p.FreshProcs.Load(),
		"outcome_histogram_size":        len(r.outcomes),
	}
	for k, v := range r.Extra {
		cov[k] = v
	}
	ev := map[string]any{
		"property_id": r.Cfg.Prop, "tier": r.Cfg.Tier, "seed": r.Cfg.Seed, "level": "model_checking",
		"coverage": cov, "assumptions": r.Assumptions, "wall_s": time.Since(r.start).Seconds(), "violations": r.violations,
	}
	if r.Assumptions == nil {
		ev["assumptions"] = []string{}
	}
	b, _ := json.MarshalIndent(ev, "", " ")
	dir := filepath.Join(r.Cfg.VerifDir, "evidence")
	os.MkdirAll(dir, 0o755)
	if err := os.WriteFile(filepath.Join(dir, r.Cfg.Prop+".json"), b, 0o644); err != nil {
		Fatalf("cannot write evidence: %v", err)
	}
}

// Replay re-runs one recorded case (fresh worker + CLI) and prints the verdict.
func (r *Run) Replay(file string) int {
	b, err := os.ReadFile(file)
	if err != nil {
		Fatalf("replay: %v", err)
	}
	var rep struct {
		Scenario  string
		Path      []int
		Facet     string
		Deviation string
		Case      string
		Features  map[string]string
		Srcs      []string
	}
	if err := json.Unmarshal(b, &rep); err != nil {
		Fatalf("replay: %v", err)
	}
	fr := &failRec{Scenario: rep.Scenario, Key: rep.Case, Path: rep.Path, Feat: rep.Features, Srcs: rep.Srcs, Fail: Fail{Facet: rep.Facet, Dev: rep.Deviation}}
	if r.scenarios[rep.Scenario] == nil || rep.Path == nil {
		fmt.Printf("replay: scenario %q has no choice path; sources are in the replay file (run them through the gosk CLI)\n", rep.Scenario)
		return 0
	}
	ok, note := r.confirm(fr)
	if ok {
		fmt.Printf("REPRODUCED facet=%s deviation=%s %s\nVIOLATION property=%s replay=%s\n", rep.Facet, rep.Deviation, note, r.Cfg.Prop, file)
		return 1
	}
	fmt.Printf("NOT REPRODUCED: %s\n", note)
	return 0
}

func firstDiag(rs []*Result) string {
	if len(rs) == 0 {
		return ""
	}
	r := rs[0]
	if r.Panic != "" {
		return "panic: " + firstLines(r.Panic, 1)
	}
	if r.ParseErr != "" {
		return "parse: " + oneLine(r.ParseErr)
	}
	e, w := DiagLines(r)
	if len(e) > 0 {
		return e[0]
	}
	if len(w) > 0 {
		return w[0]
	}
	return ""
}

func short(s string, n int) string {
	if len(s) > n {
		return s[:n] + "..."
	}
	return s
}
