package core

import (
	"fmt"
)

// Chooser is handed to a scenario's Build function. Every point at which the property's
// quantifier ranges over something is a Pick (or a Dev: a deviation from the canonical case,
// counted against the deviation bound). The explorer replays a prefix of choices and takes
// alternative 0 afterwards (stateless, replay-based depth-first search of the choice tree).
type Chooser struct {
	prefix []int
	pos    int
	ns     []int // number of alternatives at each point of this run
	path   []int // choice taken at each point of this run
	labels []string
	bound  int // deviation bound (<0: unbounded)
	cost   int
}

func (c *Chooser) pick(label string, n int, dev bool) int {
	if n <= 0 {
		panic("Chooser: no alternatives at " + label)
	}
	if dev && c.bound >= 0 && c.cost >= c.bound {
		n = 1 // bound exhausted: only the canonical alternative remains
	}
	ch := 0
	if c.pos < len(c.prefix) {
		ch = c.prefix[c.pos]
		if ch >= n {
			panic(fmt.Sprintf("Chooser: replay divergence at point %d (%s): choice %d of %d", c.pos, label, ch, n))
		}
	}
	c.pos++
	c.ns = append(c.ns, n)
	c.path = append(c.path, ch)
	c.labels = append(c.labels, label)
	if dev && ch != 0 {
		c.cost++
	}
	return ch
}

// Pick chooses one of n alternatives (0 = simplest).
func (c *Chooser) Pick(label string, n int) int { return c.pick(label, n, false) }

// Dev chooses one of n alternatives where every non-zero alternative is a deviation.
func (c *Chooser) Dev(label string, n int) int { return c.pick(label, n, true) }

// Str picks one of the given strings.
func (c *Chooser) Str(label string, alts ...string) string { return alts[c.Pick(label, len(alts))] }

// Int picks one of the given ints.
func (c *Chooser) Int(label string, alts ...int) int { return alts[c.Pick(label, len(alts))] }

// I64 picks one of the given int64s.
func (c *Chooser) I64(label string, alts []int64) int64 { return alts[c.Pick(label, len(alts))] }

func (c *Chooser) Bool(label string) bool { return c.Pick(label, 2) == 1 }

func (c *Chooser) Cost() int { return c.cost }

// Fail is one failed facet of one case.
type Fail struct {
	Facet  string
	Dev    string // exact, normalised deviation signature
	Detail string // free text for humans (not matched)
}

// Verdict is the judgement of one case.
type Verdict struct {
	Fails      []Fail
	Outcome    string // class of the observed outcome (for counting distinct outcomes)
	Nontrivial bool   // by the scenario's stated rule
	Skipped    bool   // outside the model: not judged (counted)
	NTKey      string // key for distinct_nontrivial (default: case key)
}

// Case is one concrete element of the explored space.
type Case struct {
	Key  string            // readable unique identification
	Feat map[string]string // structured coordinates in the space (matched by known findings)
	Srcs []string          // programs assembled (each independently, on the real code)
	// FreshRefs: Srcs[1:] are reference programs of a differential oracle; each is assembled as the only
	// assembly of a fresh process (memoised per text), so that state a long-lived worker may have picked
	// up from earlier assemblies cannot make the reference wrong in the same way as the program under test
	FreshRefs bool
	// FreshAll: Srcs[0] as well is assembled as the only assembly of a fresh process (a defect that needs a clean
	// process-wide state to show - e.g. a cache filled by whichever statement came first - is masked on a
	// long-lived worker that has seen thousands of programs)
	FreshAll bool
	Judge    func(rs []*Result) Verdict
	Path     []int
	Cost     int
	Index    int
}

// Scenario is one bounded space + oracle.
type Scenario struct {
	Name   string
	Bound  int                    // deviation bound; <0 = none
	Build  func(c *Chooser) *Case // nil = infeasible combination (counted as pruned)
	Rule   string
	Bounds map[string]any
}

// ExploreStats are the coverage counters of one scenario.
type ExploreStats struct {
	States      int64 // nodes of the choice tree visited
	Transitions int64 // edges
	Leaves      int64 // complete executions of Build
	Pruned      int64 // infeasible combinations
}

// Enumerate performs the depth-first search and calls emit for every case in canonical order.
func Enumerate(sc *Scenario, emit func(*Case)) ExploreStats {
	var st ExploreStats
	prefix := []int{}
	incAt := 0
	st.States = 1 // root
	idx := 0
	for {
		c := &Chooser{prefix: prefix, bound: sc.Bound}
		cs := sc.Build(c)
		if len(c.path) < len(prefix) {
			panic("explorer: Build consumed fewer points than the replayed prefix")
		}
		st.Leaves++
		newNodes := int64(len(c.path) - incAt)
		if newNodes < 0 {
			newNodes = 0
		}
		st.States += newNodes
		st.Transitions += newNodes
		if cs == nil {
			st.Pruned++
		} else {
			cs.Path = append([]int(nil), c.path...)
			cs.Cost = c.cost
			cs.Index = idx
			idx++
			emit(cs)
		}
		// next: deepest point with an untried alternative
		i := len(c.path) - 1
		for i >= 0 && c.path[i]+1 >= c.ns[i] {
			i--
		}
		if i < 0 {
			break
		}
		prefix = append(append([]int(nil), c.path[:i]...), c.path[i]+1)
		incAt = i
	}
	return st
}

// BuildPath rebuilds one case from a recorded choice path (replay).
func BuildPath(sc *Scenario, path []int) *Case {
	c := &Chooser{prefix: path, bound: sc.Bound}
	cs := sc.Build(c)
	if cs != nil {
		cs.Path = append([]int(nil), c.path...)
		cs.Cost = c.cost
	}
	return cs
}
