package core

import (
	"bufio"
	"encoding/json"
	"os"
	"regexp"
	"strings"
)

// Finding is one line of known_findings.jsonl (kind "finding" suppresses; kind "fixed" never does).
type Finding struct {
	Kind      string              `json:"kind"`
	Property  string              `json:"property"`
	ID        string              `json:"id"`
	Facet     string              `json:"facet"`
	Cell      map[string][]string `json:"cell"`
	Deviation string              `json:"deviation"`
	What      string              `json:"what"`
	Witness   map[string]any      `json:"witness,omitempty"`
	Commit    string              `json:"commit,omitempty"`

	devRe  *regexp.Regexp
	cellRe map[string][]*regexp.Regexp
	Hits   int    `json:"-"`
	First  string `json:"-"`
}

func LoadFindings(path, property string) []*Finding {
	f, err := os.Open(path)
	if err != nil {
		return nil
	}
	defer f.Close()
	var out []*Finding
	sc := bufio.NewScanner(f)
	sc.Buffer(make([]byte, 1<<20), 1<<24)
	ln := 0
	for sc.Scan() {
		ln++
		t := strings.TrimSpace(sc.Text())
		if t == "" || strings.HasPrefix(t, "#") || strings.HasPrefix(t, "//") {
			continue
		}
		var fd Finding
		if err := json.Unmarshal([]byte(t), &fd); err != nil {
			Fatalf("known_findings.jsonl line %d: %v", ln, err)
		}
		if fd.Property != property {
			continue
		}
		if strings.HasPrefix(fd.Deviation, "re:") {
			fd.devRe = regexp.MustCompile("^(?:" + fd.Deviation[3:] + ")$")
		}
		fd.cellRe = map[string][]*regexp.Regexp{}
		for k, vs := range fd.Cell {
			for _, v := range vs {
				if strings.HasPrefix(v, "re:") {
					fd.cellRe[k] = append(fd.cellRe[k], regexp.MustCompile("^(?:"+v[3:]+")$"))
				}
			}
		}
		out = append(out, &fd)
	}
	return out
}

// Match: same facet, the cell contains the case's features, and the deviation is the same.
func (fd *Finding) Match(feat map[string]string, fl *Fail) bool {
	if fd.Kind != "finding" || fd.Facet != fl.Facet {
		return false
	}
	if fd.devRe != nil {
		if !fd.devRe.MatchString(fl.Dev) {
			return false
		}
	} else if fd.Deviation != fl.Dev {
		return false
	}
	for k, vs := range fd.Cell {
		have, ok := feat[k]
		if !ok {
			return false
		}
		hit := false
		for _, v := range vs {
			if v == have {
				hit = true
				break
			}
		}
		if !hit {
			for _, re := range fd.cellRe[k] {
				if re.MatchString(have) {
					hit = true
					break
				}
			}
		}
		if !hit {
			return false
		}
	}
	return true
}
