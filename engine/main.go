// verifengine: bounded exhaustive exploration of gosk behaviours (see /verif/DESIGN.md).
package main

import (
	"flag"
	"fmt"
	"os"
	"runtime"
	"strconv"
	"time"

	"verifengine/core"
	"verifengine/props"
)

func main() {
	prop := flag.String("prop", "", "property id (C01..C19)")
	tier := flag.String("tier", "quick", "quick|thorough")
	worker := flag.String("worker", "", "worker binary built from /repo")
	cli := flag.String("cli", "", "gosk CLI binary built from /repo")
	verif := flag.String("verif", "/verif", "verification directory")
	tmp := flag.String("tmp", "", "private scratch directory")
	replay := flag.String("replay", "", "replay file")
	triage := flag.Bool("triage", false, "cluster unmatched failures instead of confirming them")
	only := flag.String("only", "", "run only the scenario with this name (development)")
	budget := flag.Duration("budget", 0, "internal deadline (0 = tier default)")
	nworkers := flag.Int("j", 0, "worker processes (default: cores)")
	flag.Parse()
	if env := os.Getenv("VERIF_TIER"); env != "" && !isFlagSet("tier") {
		*tier = env
	}
	seed := 0
	if s := os.Getenv("VERIF_SEED"); s != "" {
		if v, err := strconv.Atoi(s); err == nil {
			seed = v
		}
	}
	p := props.Lookup(*prop)
	if p == nil {
		core.Fatalf("unknown property %q", *prop)
	}
	n := *nworkers
	if n <= 0 {
		n = runtime.NumCPU()
	}
	if *budget == 0 {
		*budget = 12 * time.Minute
		if *tier == "thorough" {
			*budget = 90 * time.Minute
		}
	}
	pool := core.NewPool(*worker, *cli, *tmp, n)
	defer pool.Close()
	run := core.NewRun(core.Config{Prop: *prop, Tier: *tier, Seed: seed, VerifDir: *verif, Triage: *triage,
		Deadline: time.Now().Add(*budget), Pool: pool})
	run.Assumptions = p.Assumptions
	scs := p.Scenarios(*tier)
	if *replay != "" {
		for _, sc := range scs {
			run.Register(sc)
		}
		code := run.Replay(*replay)
		pool.Close()
		os.Exit(code)
	}
	fmt.Printf("check %s tier=%s workers=%d\n", *prop, *tier, n)
	if p.Pre != nil {
		p.Pre(run, *tier)
	}
	for _, sc := range scs {
		if *only != "" && sc.Name != *only {
			continue
		}
		run.RunScenario(sc)
	}
	if p.Custom != nil && *only == "" {
		p.Custom(run, *tier)
	}
	code := run.Finish()
	pool.Close()
	if code == 0 {
		fmt.Printf("OK property=%s tier=%s\n", *prop, *tier)
	}
	os.Exit(code)
}

func isFlagSet(name string) bool {
	set := false
	flag.Visit(func(f *flag.Flag) {
		if f.Name == name {
			set = true
		}
	})
	return set
}
