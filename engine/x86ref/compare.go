package x86ref

import (
	"fmt"
	"sort"
	"strings"
)

// MemSpec is the effective address written in the source.
type MemSpec struct {
	Base, Index string
	Scale       int
	Disp        int64
	AddrSize    int // address width implied by the registers used; for absolute addresses: the mode
	Abs         bool
}

func (m MemSpec) Linear() (map[string]int64, int64) {
	lf := map[string]int64{}
	if m.Base != "" {
		lf[m.Base] += 1
	}
	if m.Index != "" {
		sc := m.Scale
		if sc == 0 {
			sc = 1
		}
		lf[m.Index] += int64(sc)
	}
	mask := int64(1)<<uint(m.AddrSize) - 1
	return lf, m.Disp & mask
}

// Want is the meaning of the source statement.
type Want struct {
	Op     string
	CC     int
	OpSize int
	Ops    []WantOp
	Fixed  bool // operand-less fixed encoding: compare against FixedEncodings(Op, mode)
	// Allow66: a redundant operand-size prefix is tolerated (MOV Sreg,m16 / MOV m16,Sreg always move 16
	// bits; other assemblers emit 66 8E /r for an explicit WORD operand under BITS 32 as well)
	Allow66 bool
}

type WantOp struct {
	Kind string // reg, sreg, creg, imm, mem
	Reg  string
	Size int // reg/mem size in bits; imm: semantic width in bits
	Imm  int64
	Mem  MemSpec
}

// Diff is one facet on which the decoded instruction differs from the source's meaning.
type Diff struct {
	Facet string
	Dev   string
	Info  string
}

func lfString(lf map[string]int64, disp int64) string {
	var ks []string
	for k, v := range lf {
		if v != 0 {
			ks = append(ks, fmt.Sprintf("%s*%d", k, v))
		}
	}
	sort.Strings(ks)
	return strings.Join(ks, "+") + fmt.Sprintf("+%#x", disp)
}

func compareRaw(out []byte, mode int, w Want) (diffs []Diff, got Inst) {
	if len(out) == 0 {
		return []Diff{{"dropped_silently", "no_bytes", "no bytes were emitted and no error was reported"}}, got
	}
	if w.Fixed {
		for _, e := range FixedEncodings(w.Op, mode) {
			if string(e) == string(out) {
				return nil, Inst{Op: w.Op, Len: len(out), Names: []string{w.Op}}
			}
		}
		encs := FixedEncodings(w.Op, mode)
		dev := fmt.Sprintf("emitted:%X", out)
		if len(encs) > 0 {
			dev += fmt.Sprintf(" expected:%X", encs[0])
		}
		return []Diff{{"opcode", dev, fmt.Sprintf("valid encodings: %X", encs)}}, got
	}
	got, err := Decode(out, mode)
	if err != nil {
		return []Diff{{"decode", "undecodable:" + headHex(out), fmt.Sprintf("% X: %v", out, err)}}, got
	}
	add := func(f, d, i string) { diffs = append(diffs, Diff{f, d, i}) }
	if got.Op == "INT3" && w.Op == "INT" { // CC is the one-byte encoding of INT 3
		got.Op = "INT"
		got.Ops = []Operand{{Kind: "imm", Imm: 3, Size: 8}}
	}
	if got.Len != len(out) {
		add("len", fmt.Sprintf("trailing:%d", len(out)-got.Len), fmt.Sprintf("decoded %s from % X", got, out))
	}
	if got.Op != w.Op || (w.Op == "Jcc" && got.CC != w.CC) {
		add("opcode", "got:"+got.Op, fmt.Sprintf("decoded %s from % X", got, out))
		return diffs, got
	}
	opsizeDiffers := false
	if w.OpSize != 0 && got.OpSize != w.OpSize {
		opsizeDiffers = true
		add("opsize", fmt.Sprintf("got:%d want:%d", got.OpSize, w.OpSize), fmt.Sprintf("decoded %s from % X", got, out))
	}
	if len(got.Ops) != len(w.Ops) {
		add("reg_role", fmt.Sprintf("operand_count got:%d want:%d", len(got.Ops), len(w.Ops)), fmt.Sprintf("decoded %s from % X", got, out))
		return diffs, got
	}
	for i, wo := range w.Ops {
		g := got.Ops[i]
		if g.Kind != wo.Kind {
			add("reg_role", fmt.Sprintf("op%d kind got:%s want:%s", i, g.Kind, wo.Kind), fmt.Sprintf("decoded %s from % X", got, out))
			continue
		}
		switch wo.Kind {
		case "reg", "sreg", "creg":
			gn, _, gc := RegInfo(g.Reg)
			wn, _, wc := RegInfo(wo.Reg)
			if g.Reg != wo.Reg && !(opsizeDiffers && gn == wn && gc == wc && gc == "r") {
				add("reg_role", fmt.Sprintf("op%d:wrong_register", i), fmt.Sprintf("op%d got:%s want:%s; decoded %s from % X", i, g.Reg, wo.Reg, got, out))
			}
		case "imm":
			mask := int64(1)<<uint(wo.Size) - 1
			if (g.Imm^wo.Imm)&mask != 0 {
				add("imm", "value", fmt.Sprintf("op%d got:%#x want:%#x (mod 2^%d); decoded %s from % X", i, g.Imm&mask, wo.Imm&mask, wo.Size, got, out))
			}
		case "mem":
			if wo.Size != 0 && g.Size != wo.Size && !opsizeDiffers {
				add("opsize", fmt.Sprintf("mem got:%d want:%d", g.Size, wo.Size), fmt.Sprintf("decoded %s from % X", got, out))
			}
			glf, gd := g.Mem.Linear()
			wlf, wd := wo.Mem.Linear()
			if lfString(glf, gd) != lfString(wlf, wd) {
				add("ea", eaDev(g.Mem, wo.Mem), fmt.Sprintf("got %s want %s; decoded %s from % X", lfString(glf, gd), lfString(wlf, wd), got, out))
			} else if g.Mem.AddrSize != wo.Mem.AddrSize {
				add("addr_prefix", fmt.Sprintf("addrsize got:%d want:%d", g.Mem.AddrSize, wo.Mem.AddrSize), fmt.Sprintf("decoded %s from % X", got, out))
			} else if gs, ws := defaultSegment(g.Mem.Base, g.Mem.Index, g.Mem.Scale, g.Mem.AddrSize), defaultSegment(wo.Mem.Base, wo.Mem.Index, wo.Mem.Scale, wo.Mem.AddrSize); gs != ws {
				// the same sum of registers, but the register in the BASE role decides the default segment (SS for EBP/ESP/BP)
				add("ea", fmt.Sprintf("base_role:%s_segment_for_%s", gs, ws), fmt.Sprintf("written base %q, encoded base %q: the address is taken relative to %s instead of %s; decoded %s from % X", wo.Mem.Base, g.Mem.Base, gs, ws, got, out))
			}
		}
	}
	ex := got.ExtraPrefixes()
	if w.Allow66 {
		var kept []string
		for _, p := range ex {
			if p != "66" {
				kept = append(kept, p)
			}
		}
		ex = kept
	}
	if len(ex) > 0 {
		add("prefix", "extra:"+strings.Join(ex, ","), fmt.Sprintf("decoded %s from % X", got, out))
	}
	return diffs, got
}

// Compare decodes out as ONE instruction under mode and compares it with w facet by facet.
// When the raw comparison fails, it tries the four single-prefix repairs (drop a 66h/67h that is
// present, insert one that is absent); if exactly such a repair makes the bytes denote the source
// instruction, the single root-cause diff prefix/{spurious,missing}:{66,67} is reported instead of
// the cascade of consequences (wrong operand size, wrong register names, trailing bytes).
func Compare(out []byte, mode int, w Want) ([]Diff, Inst) {
	diffs, got := compareRaw(out, mode, w)
	if len(diffs) == 0 || w.Fixed || len(out) == 0 {
		return diffs, got
	}
	// locate prefix run
	np := 0
	for np < len(out) && np < 4 && (out[np] == 0x66 || out[np] == 0x67) {
		np++
	}
	for i := 0; i < np; i++ {
		v := append(append([]byte(nil), out[:i]...), out[i+1:]...)
		if d, g := compareRaw(v, mode, w); len(d) == 0 {
			return []Diff{{"prefix", fmt.Sprintf("spurious:%02X", out[i]), fmt.Sprintf("% X would denote the source instruction without the %02X prefix; as emitted it decodes to %s", out, out[i], got)}}, g
		}
	}
	for _, p := range []byte{0x66, 0x67} {
		v := append([]byte{p}, out...)
		if d, g := compareRaw(v, mode, w); len(d) == 0 {
			return []Diff{{"prefix", fmt.Sprintf("missing:%02X", p), fmt.Sprintf("% X would denote the source instruction with a %02X prefix; as emitted it decodes to %s", out, p, got)}}, g
		}
	}
	return diffs, got
}

// defaultSegment: the segment register an address uses when none is written. 32-bit addressing: SS iff the base is
// EBP or ESP; 16-bit addressing: SS iff BP takes part.
func defaultSegment(base, index string, scale int, addrSize int) string {
	if base == "" && index != "" && scale <= 1 {
		base, index = index, "" // a single unscaled register is the base
	}
	if addrSize == 16 {
		if base == "BP" || index == "BP" {
			return "SS"
		}
		return "DS"
	}
	if base == "EBP" || base == "ESP" {
		return "SS"
	}
	return "DS"
}

func headHex(b []byte) string {
	if len(b) <= 2 {
		return fmt.Sprintf("%X", b)
	}
	return fmt.Sprintf("%X..", b[:2])
}

// eaDev describes HOW a decoded address differs from the written one, role by role
// (base/index are interchangeable at scale 1; the better of the two assignments is described).
func eaDev(g *Mem, w MemSpec) string {
	wsc := w.Scale
	if w.Index == "" {
		wsc = 0
	} else if wsc == 0 {
		wsc = 1
	}
	gsc := g.Scale
	if g.Index == "" {
		gsc = 0
	}
	rel := func(got, want string) string {
		switch {
		case got == want:
			return "ok"
		case got == "":
			return "lost"
		case want == "":
			return "extra"
		}
		return "wrong"
	}
	desc := func(wb, wi string) (string, int) {
		parts := []string{"base=" + rel(g.Base, wb), "index=" + rel(g.Index, wi)}
		bad := 0
		for _, p := range parts {
			if !strings.HasSuffix(p, "=ok") {
				bad++
			}
		}
		return strings.Join(parts, " "), bad
	}
	d1, b1 := desc(w.Base, w.Index)
	if wsc == 1 {
		if d2, b2 := desc(w.Index, w.Base); b2 < b1 {
			d1 = d2
		}
	}
	sc := "ok"
	if gsc != wsc {
		sc = fmt.Sprintf("%d_for_%d", gsc, wsc)
	}
	mask := int64(1)<<uint(w.AddrSize) - 1
	dd := "ok"
	if (g.Disp^w.Disp)&mask != 0 {
		dd = "wrong"
		if g.Disp == 0 {
			dd = "lost"
		}
	}
	return fmt.Sprintf("%s scale=%s disp=%s addr=%d_for_%d", d1, sc, dd, g.AddrSize, w.AddrSize)
}
