package x86ref

import "fmt"

// Reference ENCODER: enumerates valid encodings of a canonical instruction (enough of them to
// contain a shortest one). Used for C18's minimum length and for the decoder self-check only.

func imm(v int64, n int) []byte {
	b := make([]byte, n)
	for i := 0; i < n; i++ {
		b[i] = byte(uint64(v) >> (8 * uint(i)))
	}
	return b
}

func fitsS8(v int64, width int) bool {
	mask := int64(1)<<uint(width) - 1
	lo := v & 0xff
	se := lo
	if lo&0x80 != 0 {
		se = lo | ^int64(0xff)
	}
	return se&mask == v&mask
}

// encodeMem returns the candidate ModRM(+SIB+disp) encodings of m with the given reg field,
// or nil if the address is not encodable.
func encodeMem(m MemSpec, reg int) [][]byte {
	var out [][]byte
	d := m.Disp
	if m.AddrSize == 16 {
		rm := -1
		key := m.Base + "+" + m.Index
		switch key {
		case "BX+SI", "SI+BX":
			rm = 0
		case "BX+DI", "DI+BX":
			rm = 1
		case "BP+SI", "SI+BP":
			rm = 2
		case "BP+DI", "DI+BP":
			rm = 3
		case "SI+", "+SI":
			rm = 4
		case "DI+", "+DI":
			rm = 5
		case "BP+", "+BP":
			rm = 6
		case "BX+", "+BX":
			rm = 7
		case "+":
			return [][]byte{append([]byte{byte(reg<<3 | 6)}, imm(d, 2)...)}
		}
		if rm < 0 || (m.Index != "" && m.Scale > 1) {
			return nil
		}
		d16 := int64(int16(d))
		if d16 == 0 && rm != 6 {
			out = append(out, []byte{byte(reg<<3 | rm)})
		}
		if d16 >= -128 && d16 <= 127 {
			out = append(out, []byte{byte(0x40 | reg<<3 | rm), byte(d16)})
		}
		out = append(out, append([]byte{byte(0x80 | reg<<3 | rm)}, imm(d, 2)...))
		return out
	}
	bn, in := -1, -1
	if m.Base != "" {
		n, sz, _ := RegInfo(m.Base)
		if sz != 32 {
			return nil
		}
		bn = n
	}
	sc := m.Scale
	if m.Index != "" {
		n, sz, _ := RegInfo(m.Index)
		if sz != 32 {
			return nil
		}
		in = n
		if sc == 0 {
			sc = 1
		}
		if in == 4 { // ESP cannot be an index; at scale 1 swap with the base
			if sc != 1 || bn == 4 {
				return nil
			}
			if bn < 0 {
				bn, in = 4, -1
			} else {
				bn, in = in, bn
			}
		}
	}
	if bn < 0 && in < 0 {
		return [][]byte{append([]byte{byte(reg<<3 | 5)}, imm(d, 4)...)}
	}
	scBits := map[int]int{0: 0, 1: 0, 2: 1, 4: 2, 8: 3}[sc]
	d32 := int64(int32(d))
	gen := func(bn, in int) {
		needSIB := in >= 0 || bn == 4
		if bn < 0 { // index only: SIB, mod=00, base=101, disp32
			out = append(out, append([]byte{byte(reg<<3 | 4), byte(scBits<<6 | in<<3 | 5)}, imm(d, 4)...))
			return
		}
		emit := func(mod int, disp []byte) {
			var b []byte
			if needSIB {
				ix := 4
				if in >= 0 {
					ix = in
				}
				b = []byte{byte(mod<<6 | reg<<3 | 4), byte(scBits<<6 | ix<<3 | bn)}
			} else {
				b = []byte{byte(mod<<6 | reg<<3 | bn)}
			}
			out = append(out, append(b, disp...))
		}
		if d32 == 0 && bn != 5 {
			emit(0, nil)
		}
		if d32 >= -128 && d32 <= 127 {
			emit(1, []byte{byte(d32)})
		}
		emit(2, imm(d, 4))
	}
	gen(bn, in)
	if in >= 0 && bn >= 0 && sc == 1 && bn != 4 && (bn == 5) == (in == 5) {
		// base/index interchangeable at scale 1 - unless that moves EBP into or out of the base role, which changes
		// the default segment (SS for an EBP base)
		gen(in, bn)
	}
	return out
}

func withPrefixes(body []byte, need66, need67 bool) []byte {
	var p []byte
	if need67 {
		p = append(p, 0x67)
	}
	if need66 {
		p = append(p, 0x66)
	}
	return append(p, body...)
}

var aluIndex = map[string]int{"ADD": 0, "OR": 1, "ADC": 2, "SBB": 3, "AND": 4, "SUB": 5, "XOR": 6, "CMP": 7}

// Encodings enumerates valid encodings of w under mode for the instruction classes C18 judges
// (ALU r/m,imm; ALU/MOV r/m,r and r,r/m; MOV r,imm; MOV r/m,imm; MOV acc<->moffs; PUSH/POP r).
// It returns nil for anything else.
func Encodings(w Want, mode int) [][]byte {
	var out [][]byte
	need66 := w.OpSize != 8 && w.OpSize != 0 && w.OpSize != mode
	wbit := 1
	if w.OpSize == 8 {
		wbit = 0
	}
	ib := w.OpSize / 8
	rmEnc := func(o WantOp, reg int) (encs [][]byte, need67 bool) {
		if o.Kind == "reg" {
			n, _, _ := RegInfo(o.Reg)
			return [][]byte{{byte(0xC0 | reg<<3 | n)}}, false
		}
		return encodeMem(o.Mem, reg), o.Mem.AddrSize != mode
	}
	add := func(body []byte, need67 bool) { out = append(out, withPrefixes(body, need66, need67)) }
	switch {
	case len(w.Ops) == 2 && w.Ops[1].Kind == "imm" && (w.Ops[0].Kind == "reg" || w.Ops[0].Kind == "mem"):
		iv := w.Ops[1].Imm
		if n, ok := aluIndex[w.Op]; ok {
			encs, n67 := rmEnc(w.Ops[0], n)
			for _, e := range encs {
				add(append(append([]byte{byte(0x80 | wbit)}, e...), imm(iv, ib)...), n67)
				if wbit == 1 && fitsS8(iv, w.OpSize) {
					add(append(append([]byte{0x83}, e...), byte(iv)), n67)
				}
			}
			if w.Ops[0].Kind == "reg" {
				if rn, _, _ := RegInfo(w.Ops[0].Reg); rn == 0 {
					add(append([]byte{byte(n<<3 | 4 | wbit)}, imm(iv, ib)...), false)
				}
			}
		} else if w.Op == "MOV" {
			encs, n67 := rmEnc(w.Ops[0], 0)
			for _, e := range encs {
				add(append(append([]byte{byte(0xC6 | wbit)}, e...), imm(iv, ib)...), n67)
			}
			if w.Ops[0].Kind == "reg" {
				rn, _, _ := RegInfo(w.Ops[0].Reg)
				add(append([]byte{byte(0xB0 | wbit<<3 | rn)}, imm(iv, ib)...), false)
			}
		}
	case len(w.Ops) == 2 && (w.Ops[0].Kind == "reg" || w.Ops[0].Kind == "mem") && (w.Ops[1].Kind == "reg" || w.Ops[1].Kind == "mem") && !(w.Ops[0].Kind == "mem" && w.Ops[1].Kind == "mem"):
		var base int
		if n, ok := aluIndex[w.Op]; ok {
			base = n << 3
		} else if w.Op == "MOV" {
			base = 0x88
		} else {
			return nil
		}
		if w.Ops[1].Kind == "reg" { // r/m, r : opcode base+w
			rn, _, _ := RegInfo(w.Ops[1].Reg)
			encs, n67 := rmEnc(w.Ops[0], rn)
			for _, e := range encs {
				add(append([]byte{byte(base | wbit)}, e...), n67)
			}
		}
		if w.Ops[0].Kind == "reg" { // r, r/m : opcode base+2+w
			rn, _, _ := RegInfo(w.Ops[0].Reg)
			encs, n67 := rmEnc(w.Ops[1], rn)
			for _, e := range encs {
				add(append([]byte{byte(base | 2 | wbit)}, e...), n67)
			}
		}
		if w.Op == "MOV" { // moffs forms
			for k := 0; k < 2; k++ {
				r, m := w.Ops[k], w.Ops[1-k]
				if r.Kind == "reg" && m.Kind == "mem" && m.Mem.Base == "" && m.Mem.Index == "" {
					if rn, _, _ := RegInfo(r.Reg); rn == 0 {
						op := 0xA0 | wbit
						if k == 1 {
							op |= 2
						}
						add(append([]byte{byte(op)}, imm(m.Mem.Disp, m.Mem.AddrSize/8)...), m.Mem.AddrSize != mode)
					}
				}
			}
		}
	case len(w.Ops) == 1 && w.Ops[0].Kind == "sreg" && (w.Op == "PUSH" || w.Op == "POP"):
		// PUSH/POP Sreg at the mode's stack width: one-byte opcodes for ES/CS/SS/DS, 0F A0/A1/A8/A9 for FS/GS
		enc := map[string][2][]byte{"ES": {{0x06}, {0x07}}, "CS": {{0x0E}, nil}, "SS": {{0x16}, {0x17}}, "DS": {{0x1E}, {0x1F}},
			"FS": {{0x0F, 0xA0}, {0x0F, 0xA1}}, "GS": {{0x0F, 0xA8}, {0x0F, 0xA9}}}[w.Ops[0].Reg]
		e := enc[0]
		if w.Op == "POP" {
			e = enc[1]
		}
		if e != nil {
			out = append(out, e)
		}
	case len(w.Ops) == 1 && w.Ops[0].Kind == "reg" && (w.Op == "PUSH" || w.Op == "POP"):
		rn, sz, _ := RegInfo(w.Ops[0].Reg)
		if sz == 8 {
			return nil
		}
		if w.Op == "PUSH" {
			add([]byte{byte(0x50 | rn)}, false)
			add([]byte{0xFF, byte(0xC0 | 6<<3 | rn)}, false)
		} else {
			add([]byte{byte(0x58 | rn)}, false)
			add([]byte{0x8F, byte(0xC0 | rn)}, false)
		}
	}
	return out
}

// MinLen is the length of the shortest valid encoding (0 = not modelled).
func MinLen(w Want, mode int) int {
	best := 0
	for _, e := range Encodings(w, mode) {
		if best == 0 || len(e) < best {
			best = len(e)
		}
	}
	return best
}

// encoderSelfCheck: every encoding the encoder lists for a representative catalogue decodes back
// to exactly the instruction it was generated from.
var encoderSelfCheck = func(mode int) (int, string) {
	n := 0
	mems := []MemSpec{
		{Base: "BX", AddrSize: 16}, {Base: "BP", AddrSize: 16}, {Base: "BP", Index: "SI", Scale: 1, Disp: -3, AddrSize: 16}, {Base: "SI", Disp: 0x1234, AddrSize: 16},
		{Disp: 0x1234, AddrSize: mode, Abs: true},
		{Base: "EBX", AddrSize: 32}, {Base: "EBP", AddrSize: 32}, {Base: "ESP", Disp: 4, AddrSize: 32}, {Base: "EAX", Index: "ECX", Scale: 4, Disp: 8, AddrSize: 32},
		{Index: "EDX", Scale: 2, Disp: 0x100, AddrSize: 32}, {Base: "EBP", Index: "EAX", Scale: 1, AddrSize: 32}, {Base: "EAX", Index: "EAX", Scale: 1, AddrSize: 32},
		{Base: "EDI", Disp: -129, AddrSize: 32},
	}
	imms := []int64{0, 1, -1, 127, 128, -128, -129, 255, 256, 0x7fff, 0x8000, -0x8000, 0x12345678}
	check := func(w Want) string {
		for _, e := range Encodings(w, mode) {
			n++
			if d, got := Compare(e, mode, w); len(d) != 0 {
				return fmt.Sprintf("mode %d: encoding % X of %+v decodes to %s: %+v", mode, e, w, got, d)
			}
		}
		return ""
	}
	for _, size := range []int{8, 16, 32} {
		regs := map[int][]string{8: Reg8, 16: Reg16, 32: Reg32}[size]
		for op := range aluIndex {
			for _, r := range regs {
				for _, iv := range imms {
					if bad := check(Want{Op: op, OpSize: size, Ops: []WantOp{{Kind: "reg", Reg: r, Size: size}, {Kind: "imm", Imm: iv, Size: size}}}); bad != "" {
						return n, bad
					}
				}
			}
			for _, m := range mems {
				for _, iv := range imms[:6] {
					if bad := check(Want{Op: op, OpSize: size, Ops: []WantOp{{Kind: "mem", Mem: m, Size: size}, {Kind: "imm", Imm: iv, Size: size}}}); bad != "" {
						return n, bad
					}
				}
				if bad := check(Want{Op: op, OpSize: size, Ops: []WantOp{{Kind: "reg", Reg: regs[1], Size: size}, {Kind: "mem", Mem: m, Size: size}}}); bad != "" {
					return n, bad
				}
				if bad := check(Want{Op: op, OpSize: size, Ops: []WantOp{{Kind: "mem", Mem: m, Size: size}, {Kind: "reg", Reg: regs[3], Size: size}}}); bad != "" {
					return n, bad
				}
			}
		}
		for _, r := range regs {
			for _, iv := range imms {
				if bad := check(Want{Op: "MOV", OpSize: size, Ops: []WantOp{{Kind: "reg", Reg: r, Size: size}, {Kind: "imm", Imm: iv, Size: size}}}); bad != "" {
					return n, bad
				}
			}
			for _, r2 := range regs {
				if bad := check(Want{Op: "MOV", OpSize: size, Ops: []WantOp{{Kind: "reg", Reg: r, Size: size}, {Kind: "reg", Reg: r2, Size: size}}}); bad != "" {
					return n, bad
				}
			}
			if size != 8 {
				for _, op := range []string{"PUSH", "POP"} {
					if bad := check(Want{Op: op, OpSize: size, Ops: []WantOp{{Kind: "reg", Reg: r, Size: size}}}); bad != "" {
						return n, bad
					}
				}
			}
		}
		for _, m := range mems {
			for k := 0; k < 2; k++ {
				ops := []WantOp{{Kind: "reg", Reg: regs[0], Size: size}, {Kind: "mem", Mem: m, Size: size}}
				if k == 1 {
					ops[0], ops[1] = ops[1], ops[0]
				}
				if bad := check(Want{Op: "MOV", OpSize: size, Ops: ops}); bad != "" {
					return n, bad
				}
			}
		}
	}
	return n, ""
}
