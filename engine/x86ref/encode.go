package x86ref

// encoderSelfCheck is extended in encode_forms.go; placeholder until the encoder exists.
var encoderSelfCheck = func(mode int) (int, string) { return 0, "" }
