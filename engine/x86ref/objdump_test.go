package x86ref

import (
	"bufio"
	"bytes"
	"os"
	"os/exec"
	"regexp"
	"strings"
	"testing"
)

// Cross-check of the reference decoder against binutils objdump (development aid; skipped if absent).
func TestObjdumpAgrees(t *testing.T) {
	if _, err := exec.LookPath("objdump"); err != nil {
		t.Skip("objdump not present")
	}
	for _, mode := range []int{16, 32} {
		var all [][]byte
		seen := map[string]bool{}
		collect := func(w Want) {
			for _, e := range Encodings(w, mode) {
				if !seen[string(e)] {
					seen[string(e)] = true
					all = append(all, e)
				}
			}
		}
		mems := []MemSpec{{Base: "BX", AddrSize: 16}, {Base: "BP", Index: "SI", Scale: 1, Disp: -3, AddrSize: 16}, {Disp: 0x1234, AddrSize: mode},
			{Base: "EBP", AddrSize: 32}, {Base: "ESP", Disp: 4, AddrSize: 32}, {Base: "EAX", Index: "ECX", Scale: 4, Disp: 8, AddrSize: 32}, {Index: "EDX", Scale: 2, Disp: 0x100, AddrSize: 32}}
		for _, size := range []int{8, 16, 32} {
			regs := map[int][]string{8: Reg8, 16: Reg16, 32: Reg32}[size]
			for op := range aluIndex {
				for _, iv := range []int64{1, -1, 128, 0x1234} {
					collect(Want{Op: op, OpSize: size, Ops: []WantOp{{Kind: "reg", Reg: regs[0], Size: size}, {Kind: "imm", Imm: iv, Size: size}}})
					collect(Want{Op: op, OpSize: size, Ops: []WantOp{{Kind: "reg", Reg: regs[5], Size: size}, {Kind: "imm", Imm: iv, Size: size}}})
					for _, m := range mems {
						collect(Want{Op: op, OpSize: size, Ops: []WantOp{{Kind: "mem", Mem: m, Size: size}, {Kind: "imm", Imm: iv, Size: size}}})
					}
				}
				for _, m := range mems {
					collect(Want{Op: op, OpSize: size, Ops: []WantOp{{Kind: "reg", Reg: regs[2], Size: size}, {Kind: "mem", Mem: m, Size: size}}})
				}
			}
			for _, r := range regs {
				collect(Want{Op: "MOV", OpSize: size, Ops: []WantOp{{Kind: "reg", Reg: r, Size: size}, {Kind: "imm", Imm: 0x1234, Size: size}}})
				if size != 8 {
					collect(Want{Op: "PUSH", OpSize: size, Ops: []WantOp{{Kind: "reg", Reg: r, Size: size}}})
					collect(Want{Op: "POP", OpSize: size, Ops: []WantOp{{Kind: "reg", Reg: r, Size: size}}})
				}
			}
		}
		// plus hand-picked encodings of the other decoder branches
		extra := [][]byte{{0xCD, 0x10}, {0xCC}, {0xC3}, {0xCB}, {0xC2, 4, 0}, {0xE4, 0x60}, {0xE6, 0x60}, {0xEC}, {0xED}, {0xEE}, {0xEF}, {0x66, 0xED}, {0xEB, 0xFE}, {0x74, 0x05},
			{0x6A, 0x7F}, {0x8E, 0xD8}, {0x8C, 0xC1}, {0x0F, 0x20, 0xC0}, {0x0F, 0x22, 0xC0}, {0xD1, 0xE0}, {0xC1, 0xE8, 4}, {0xD3, 0xF8}, {0xF7, 0xD0}, {0xF6, 0xE1},
			{0x0F, 0xAF, 0xC1}, {0x6B, 0xC9, 0x04}, {0x0F, 0xA0}, {0x0F, 0xA9}, {0x06}, {0x1F}, {0xFF, 0x37}, {0x8F, 0x07}, {0x40}, {0x4F}, {0xFE, 0xC0}}
		if mode == 32 {
			extra = append(extra, []byte{0xE9, 1, 0, 0, 0}, []byte{0xE8, 1, 0, 0, 0}, []byte{0x68, 1, 2, 3, 4}, []byte{0xEA, 1, 2, 3, 4, 8, 0}, []byte{0x69, 0xC9, 0, 0x12, 0, 0}, []byte{0x0F, 0x84, 1, 0, 0, 0}, []byte{0x0F, 0x01, 0x15, 0x34, 0x12, 0, 0})
		} else {
			extra = append(extra, []byte{0xE9, 1, 0}, []byte{0xE8, 1, 0}, []byte{0x68, 1, 2}, []byte{0xEA, 1, 2, 8, 0}, []byte{0x69, 0xC9, 0, 0x12}, []byte{0x0F, 0x84, 1, 0}, []byte{0x0F, 0x01, 0x16, 0x34, 0x12})
		}
		for _, f := range fixedTable {
			for _, e := range FixedEncodings(f.name, mode) {
				if len(e) > 1 || (e[0] != 0x2E && e[0] != 0x3E && e[0] != 0x26 && e[0] != 0x36 && e[0] != 0x64 && e[0] != 0x65 && e[0] != 0xF0 && e[0] != 0xF2 && e[0] != 0xF3) {
					extra = append(extra, e)
				}
			}
		}
		all = append(all, extra...)
		var blob []byte
		for _, e := range all {
			blob = append(blob, e...)
		}
		f, _ := os.CreateTemp("", "x86ref*.bin")
		f.Write(blob)
		f.Close()
		defer os.Remove(f.Name())
		m := "i386"
		if mode == 16 {
			m = "i8086"
		}
		outb, err := exec.Command("objdump", "-D", "-b", "binary", "-m", m, "-M", "intel", "-w", f.Name()).Output()
		if err != nil {
			t.Fatal(err)
		}
		re := regexp.MustCompile(`^\s*([0-9a-f]+):\t((?:[0-9a-f]{2} )+)\s*\t?(.*)$`)
		type od struct {
			off, n int
			text   string
		}
		lens := map[int]od{}
		sc := bufio.NewScanner(bytes.NewReader(outb))
		for sc.Scan() {
			mm := re.FindStringSubmatch(sc.Text())
			if mm == nil {
				continue
			}
			var off int
			for _, c := range mm[1] {
				off = off*16 + strings.IndexRune("0123456789abcdef", c)
			}
			lens[off] = od{off, len(strings.Fields(mm[2])), mm[3]}
		}
		off := 0
		bad := 0
		for _, e := range all {
			in, err := Decode(e, mode)
			o, ok := lens[off]
			if err != nil || !ok || o.n != in.Len || in.Len != len(e) {
				bad++
				if bad < 15 {
					t.Errorf("mode %d: % X: x86ref=%v (err %v) objdump=%+v ok=%v", mode, e, in, err, o, ok)
				}
			} else {
				name := strings.ToLower(in.Op)
				if in.Op == "Jcc" {
					name = "j"
				}
				if len(in.Names) == 0 && !strings.HasPrefix(strings.TrimSpace(o.text), name) && !(in.Op == "SHL" && strings.HasPrefix(o.text, "sal")) &&
					!(in.Op == "RETF" && strings.HasPrefix(o.text, "retf")) && !(in.Op == "INT3") && !(in.Op == "RET") {
					bad++
					if bad < 15 {
						t.Errorf("mode %d: % X: x86ref op %s, objdump %q", mode, e, in.Op, o.text)
					}
				}
			}
			off += len(e)
		}
		t.Logf("mode %d: %d encodings cross-checked against objdump, %d disagreements", mode, len(all), bad)
	}
}
