// Package x86ref is a small reference model of the IA-32 instruction encoding for the subset of
// instructions gosk can legitimately emit: a decoder (bytes -> semantic tuple) written from the
// Intel SDM opcode maps, used as the oracle of C01/C02/C04/C17/C18. It never imports gosk code.
package x86ref

import (
	"fmt"
	"strings"
)

var Reg8 = []string{"AL", "CL", "DL", "BL", "AH", "CH", "DH", "BH"}
var Reg16 = []string{"AX", "CX", "DX", "BX", "SP", "BP", "SI", "DI"}
var Reg32 = []string{"EAX", "ECX", "EDX", "EBX", "ESP", "EBP", "ESI", "EDI"}
var SReg = []string{"ES", "CS", "SS", "DS", "FS", "GS"}

func RegName(n, size int) string {
	switch size {
	case 8:
		return Reg8[n&7]
	case 16:
		return Reg16[n&7]
	}
	return Reg32[n&7]
}

// RegInfo returns (number, size-in-bits, class) for a register name; class "" if unknown.
func RegInfo(name string) (int, int, string) {
	name = strings.ToUpper(name)
	for i, r := range Reg8 {
		if r == name {
			return i, 8, "r"
		}
	}
	for i, r := range Reg16 {
		if r == name {
			return i, 16, "r"
		}
	}
	for i, r := range Reg32 {
		if r == name {
			return i, 32, "r"
		}
	}
	for i, r := range SReg {
		if r == name {
			return i, 16, "s"
		}
	}
	if len(name) == 3 && name[:2] == "CR" && name[2] >= '0' && name[2] <= '7' {
		return int(name[2] - '0'), 32, "c"
	}
	return 0, 0, ""
}

// Mem is a decoded memory operand.
type Mem struct {
	Base     string // "" = none
	Index    string
	Scale    int
	Disp     int64 // sign-extended displacement
	AddrSize int   // 16 or 32
	DispSize int   // bytes of displacement encoded (0,1,2,4)
	HasSIB   bool
	Moffs    bool
}

// Linear returns the effective address as a linear form register->coefficient plus displacement,
// reduced modulo 2^AddrSize.
func (m *Mem) Linear() (map[string]int64, int64) {
	lf := map[string]int64{}
	if m.Base != "" {
		lf[m.Base] += 1
	}
	if m.Index != "" {
		lf[m.Index] += int64(m.Scale)
	}
	mask := int64(1)<<uint(m.AddrSize) - 1
	return lf, m.Disp & mask
}

func (m *Mem) String() string {
	var parts []string
	if m.Base != "" {
		parts = append(parts, m.Base)
	}
	if m.Index != "" {
		parts = append(parts, fmt.Sprintf("%s*%d", m.Index, m.Scale))
	}
	if m.Disp != 0 || len(parts) == 0 {
		parts = append(parts, fmt.Sprintf("%#x", m.Disp))
	}
	return fmt.Sprintf("[%s]/a%d", strings.Join(parts, "+"), m.AddrSize)
}

// Operand kinds: reg, sreg, creg, imm, mem, rel, far
type Operand struct {
	Kind string
	Reg  string
	Size int // bits (reg/mem/imm semantic width)
	Imm  int64
	Mem  *Mem
	Seg  int64
	Off  int64
}

func (o Operand) String() string {
	switch o.Kind {
	case "reg", "sreg", "creg":
		return o.Reg
	case "imm":
		return fmt.Sprintf("imm%d:%#x", o.Size, o.Imm)
	case "mem":
		return fmt.Sprintf("m%d%s", o.Size, o.Mem.String())
	case "rel":
		return fmt.Sprintf("rel%d:%+d", o.Size, o.Imm)
	case "far":
		return fmt.Sprintf("far %#x:%#x", o.Seg, o.Off)
	}
	return "?"
}

// Inst is the semantic tuple of one decoded instruction.
type Inst struct {
	Op     string // canonical mnemonic; Jcc are "Jcc" with CC set
	CC     int
	OpSize int // effective operand size (8/16/32); 0 when the instruction has none
	Ops    []Operand
	Len    int
	Has66  bool
	Has67  bool
	Uses66 bool     // the operand-size attribute changes this instruction's meaning
	Uses67 bool     // the address-size attribute is used (memory operand / moffs)
	SegOvr string   // segment override prefix seen
	Rep    byte     // F2/F3/F0 seen
	Names  []string // for fixed no-operand encodings: every mnemonic this byte string means
	Bytes  []byte
}

func (i Inst) String() string {
	var ops []string
	for _, o := range i.Ops {
		ops = append(ops, o.String())
	}
	name := i.Op
	if i.Op == "Jcc" {
		name = fmt.Sprintf("Jcc(%d)", i.CC)
	}
	if len(i.Names) > 0 {
		name = strings.Join(i.Names, "/")
	}
	return fmt.Sprintf("%s.o%d %s (len %d)", name, i.OpSize, strings.Join(ops, ","), i.Len)
}

type decoder struct {
	b    []byte
	p    int
	mode int
	err  error
}

func (d *decoder) u8() byte {
	if d.p >= len(d.b) {
		d.err = fmt.Errorf("truncated")
		return 0
	}
	v := d.b[d.p]
	d.p++
	return v
}
func (d *decoder) imm(n int) int64 { // sign-extended little-endian n-byte value
	var v uint64
	for i := 0; i < n; i++ {
		v |= uint64(d.u8()) << (8 * uint(i))
	}
	shift := uint(64 - 8*n)
	return int64(v<<shift) >> shift
}

var aluOps = []string{"ADD", "OR", "ADC", "SBB", "AND", "SUB", "XOR", "CMP"}
var shiftOps = []string{"ROL", "ROR", "RCL", "RCR", "SHL", "SHR", "SAL", "SAR"}
var grp3 = []string{"TEST", "TEST", "NOT", "NEG", "MUL", "IMUL", "DIV", "IDIV"}

// modrm decodes ModR/M (+SIB+disp). Returns reg field and either a register number (isReg) or a Mem.
func (d *decoder) modrm(addr int) (reg int, rm int, isReg bool, m *Mem) {
	b := d.u8()
	mod := int(b >> 6)
	reg = int(b>>3) & 7
	rm = int(b) & 7
	if mod == 3 {
		return reg, rm, true, nil
	}
	m = &Mem{AddrSize: addr, Scale: 1}
	if addr == 16 {
		pairs := [][2]string{{"BX", "SI"}, {"BX", "DI"}, {"BP", "SI"}, {"BP", "DI"}, {"SI", ""}, {"DI", ""}, {"BP", ""}, {"BX", ""}}
		if mod == 0 && rm == 6 {
			m.Disp = int64(uint16(d.imm(2)))
			m.DispSize = 2
			return
		}
		m.Base, m.Index = pairs[rm][0], pairs[rm][1]
		if mod == 1 {
			m.Disp = d.imm(1)
			m.DispSize = 1
		} else if mod == 2 {
			m.Disp = d.imm(2)
			m.DispSize = 2
		}
		return
	}
	// 32-bit addressing
	if rm == 4 {
		m.HasSIB = true
		sib := d.u8()
		sc := int(sib >> 6)
		idx := int(sib>>3) & 7
		base := int(sib) & 7
		if idx != 4 {
			m.Index = Reg32[idx]
			m.Scale = 1 << uint(sc)
		}
		if base == 5 && mod == 0 {
			m.Disp = d.imm(4)
			m.DispSize = 4
			return
		}
		m.Base = Reg32[base]
	} else if rm == 5 && mod == 0 {
		m.Disp = d.imm(4)
		m.DispSize = 4
		return
	} else {
		m.Base = Reg32[rm]
	}
	if mod == 1 {
		m.Disp = d.imm(1)
		m.DispSize = 1
	} else if mod == 2 {
		m.Disp = d.imm(4)
		m.DispSize = 4
	}
	return
}

func regOp(n, size int) Operand       { return Operand{Kind: "reg", Reg: RegName(n, size), Size: size} }
func immOp(v int64, size int) Operand { return Operand{Kind: "imm", Imm: v, Size: size} }

func rmOp(rm int, isReg bool, m *Mem, size int) Operand {
	if isReg {
		return regOp(rm, size)
	}
	return Operand{Kind: "mem", Mem: m, Size: size}
}

// Decode decodes exactly one instruction at the start of b under mode (16 or 32).
// Anything outside the modelled subset yields an error ("unknown").
func Decode(b []byte, mode int) (Inst, error) {
	d := &decoder{b: b, mode: mode}
	var in Inst
	// prefixes
	for {
		if d.p >= len(b) {
			return decodeFixed(b, mode) // a lone prefix byte (CS, LOCK, REP, ...) is a fixed encoding
		}
		c := b[d.p]
		switch c {
		case 0x66:
			in.Has66 = true
		case 0x67:
			in.Has67 = true
		case 0x26:
			in.SegOvr = "ES"
		case 0x2E:
			in.SegOvr = "CS"
		case 0x36:
			in.SegOvr = "SS"
		case 0x3E:
			in.SegOvr = "DS"
		case 0x64:
			in.SegOvr = "FS"
		case 0x65:
			in.SegOvr = "GS"
		case 0xF0, 0xF2, 0xF3:
			in.Rep = c
		default:
			goto opcode
		}
		d.p++
		if d.p > 4 {
			return in, fmt.Errorf("too many prefixes")
		}
	}
opcode:
	osz := mode
	if in.Has66 {
		osz = 48 - mode
	}
	asz := mode
	if in.Has67 {
		asz = 48 - mode
	}
	op := d.u8()
	set := func(name string, size int, uses66 bool, ops ...Operand) {
		in.Op, in.OpSize, in.Uses66, in.Ops = name, size, uses66, ops
	}
	useMem := func(ops ...Operand) {
		for _, o := range ops {
			if o.Kind == "mem" {
				in.Uses67 = true
			}
		}
	}
	switch {
	case op < 0x40 && op&7 < 6: // ALU
		name := aluOps[op>>3]
		switch op & 7 {
		case 0, 1, 2, 3:
			size := 8
			if op&1 == 1 {
				size = osz
			}
			reg, rm, isReg, m := d.modrm(asz)
			a, bb := rmOp(rm, isReg, m, size), regOp(reg, size)
			if op&2 != 0 {
				a, bb = bb, a
			}
			set(name, size, size != 8, a, bb)
		case 4:
			set(name, 8, false, regOp(0, 8), immOp(d.imm(1), 8))
		case 5:
			set(name, osz, true, regOp(0, osz), immOp(d.imm(osz/8), osz))
		}
	case op == 0x06 || op == 0x0E || op == 0x16 || op == 0x1E:
		set("PUSH", osz, true, Operand{Kind: "sreg", Reg: SReg[op>>3], Size: 16})
	case op == 0x07 || op == 0x17 || op == 0x1F:
		set("POP", osz, true, Operand{Kind: "sreg", Reg: SReg[op>>3], Size: 16})
	case op >= 0x40 && op <= 0x47:
		set("INC", osz, true, regOp(int(op&7), osz))
	case op >= 0x48 && op <= 0x4F:
		set("DEC", osz, true, regOp(int(op&7), osz))
	case op >= 0x50 && op <= 0x57:
		set("PUSH", osz, true, regOp(int(op&7), osz))
	case op >= 0x58 && op <= 0x5F:
		set("POP", osz, true, regOp(int(op&7), osz))
	case op == 0x68:
		set("PUSH", osz, true, immOp(d.imm(osz/8), osz))
	case op == 0x6A:
		set("PUSH", osz, true, immOp(d.imm(1), osz))
	case op == 0x69 || op == 0x6B:
		reg, rm, isReg, m := d.modrm(asz)
		var iv int64
		if op == 0x69 {
			iv = d.imm(osz / 8)
		} else {
			iv = d.imm(1)
		}
		set("IMUL", osz, true, regOp(reg, osz), rmOp(rm, isReg, m, osz), immOp(iv, osz))
	case op >= 0x70 && op <= 0x7F:
		in.CC = int(op & 15)
		set("Jcc", 0, false, Operand{Kind: "rel", Imm: d.imm(1), Size: 8})
	case op == 0x80 || op == 0x81 || op == 0x83:
		reg, rm, isReg, m := d.modrm(asz)
		size := osz
		if op == 0x80 {
			size = 8
		}
		var iv int64
		if op == 0x81 {
			iv = d.imm(osz / 8)
		} else {
			iv = d.imm(1)
		}
		set(aluOps[reg], size, size != 8, rmOp(rm, isReg, m, size), immOp(iv, size))
	case op == 0x84 || op == 0x85:
		size := 8
		if op&1 == 1 {
			size = osz
		}
		reg, rm, isReg, m := d.modrm(asz)
		set("TEST", size, size != 8, rmOp(rm, isReg, m, size), regOp(reg, size))
	case op >= 0x88 && op <= 0x8B:
		size := 8
		if op&1 == 1 {
			size = osz
		}
		reg, rm, isReg, m := d.modrm(asz)
		a, bb := rmOp(rm, isReg, m, size), regOp(reg, size)
		if op&2 != 0 {
			a, bb = bb, a
		}
		set("MOV", size, size != 8, a, bb)
	case op == 0x8C || op == 0x8E:
		reg, rm, isReg, m := d.modrm(asz)
		if reg > 5 {
			return in, fmt.Errorf("bad sreg")
		}
		s := Operand{Kind: "sreg", Reg: SReg[reg], Size: 16}
		var o Operand
		if isReg {
			// register form: 16-bit move; with a 32-bit operand size the upper half is unspecified/zero
			o = regOp(rm, osz)
		} else {
			o = Operand{Kind: "mem", Mem: m, Size: 16}
		}
		if op == 0x8C {
			set("MOV", 16, false, o, s)
		} else {
			set("MOV", 16, false, s, o)
		}
		in.Uses66 = isReg // the prefix changes which register name is denoted
	case op == 0x8D:
		reg, rm, isReg, m := d.modrm(asz)
		if isReg {
			return in, fmt.Errorf("LEA reg")
		}
		_ = rm
		set("LEA", osz, true, regOp(reg, osz), Operand{Kind: "mem", Mem: m, Size: 0})
	case op == 0x8F:
		reg, rm, isReg, m := d.modrm(asz)
		if reg != 0 {
			return in, fmt.Errorf("8F /%d", reg)
		}
		set("POP", osz, true, rmOp(rm, isReg, m, osz))
	case op == 0xA0 || op == 0xA1 || op == 0xA2 || op == 0xA3:
		size := 8
		if op&1 == 1 {
			size = osz
		}
		m := &Mem{AddrSize: asz, Scale: 1, Moffs: true, DispSize: asz / 8}
		if asz == 16 {
			m.Disp = int64(uint16(d.imm(2)))
		} else {
			m.Disp = int64(uint32(d.imm(4)))
		}
		a, bb := regOp(0, size), Operand{Kind: "mem", Mem: m, Size: size}
		if op&2 != 0 {
			a, bb = bb, a
		}
		set("MOV", size, size != 8, a, bb)
	case op == 0xA8:
		set("TEST", 8, false, regOp(0, 8), immOp(d.imm(1), 8))
	case op == 0xA9:
		set("TEST", osz, true, regOp(0, osz), immOp(d.imm(osz/8), osz))
	case op >= 0xB0 && op <= 0xB7:
		set("MOV", 8, false, regOp(int(op&7), 8), immOp(d.imm(1), 8))
	case op >= 0xB8 && op <= 0xBF:
		set("MOV", osz, true, regOp(int(op&7), osz), immOp(d.imm(osz/8), osz))
	case op == 0xC0 || op == 0xC1 || op == 0xD0 || op == 0xD1 || op == 0xD2 || op == 0xD3:
		size := 8
		if op&1 == 1 {
			size = osz
		}
		reg, rm, isReg, m := d.modrm(asz)
		var cnt Operand
		switch op {
		case 0xC0, 0xC1:
			cnt = immOp(d.imm(1)&0xff, 8)
		case 0xD0, 0xD1:
			cnt = immOp(1, 8)
		default:
			cnt = regOp(1, 8)
		}
		name := shiftOps[reg]
		if name == "SAL" {
			name = "SHL"
		}
		set(name, size, size != 8, rmOp(rm, isReg, m, size), cnt)
	case op == 0xC2:
		set("RET", 0, false, immOp(d.imm(2)&0xffff, 16))
	case op == 0xC3:
		set("RET", 0, false)
	case op == 0xCA:
		set("RETF", 0, false, immOp(d.imm(2)&0xffff, 16))
	case op == 0xCB:
		set("RETF", 0, false)
	case op == 0xC6 || op == 0xC7:
		size := 8
		if op == 0xC7 {
			size = osz
		}
		reg, rm, isReg, m := d.modrm(asz)
		if reg != 0 {
			return in, fmt.Errorf("C6/C7 /%d", reg)
		}
		set("MOV", size, size != 8, rmOp(rm, isReg, m, size), immOp(d.imm(size/8), size))
	case op == 0xCC:
		set("INT3", 0, false)
	case op == 0xCD:
		set("INT", 0, false, immOp(d.imm(1)&0xff, 8))
	case op == 0xE4 || op == 0xE5:
		size := 8
		if op == 0xE5 {
			size = osz
		}
		set("IN", size, size != 8, regOp(0, size), immOp(d.imm(1)&0xff, 8))
	case op == 0xE6 || op == 0xE7:
		size := 8
		if op == 0xE7 {
			size = osz
		}
		set("OUT", size, size != 8, immOp(d.imm(1)&0xff, 8), regOp(0, size))
	case op == 0xEC || op == 0xED:
		size := 8
		if op == 0xED {
			size = osz
		}
		set("IN", size, size != 8, regOp(0, size), regOp(2, 16))
	case op == 0xEE || op == 0xEF:
		size := 8
		if op == 0xEF {
			size = osz
		}
		set("OUT", size, size != 8, regOp(2, 16), regOp(0, size))
	case op == 0xE8:
		set("CALL", osz, true, Operand{Kind: "rel", Imm: d.imm(osz / 8), Size: osz})
	case op == 0xE9:
		set("JMP", osz, true, Operand{Kind: "rel", Imm: d.imm(osz / 8), Size: osz})
	case op == 0xEB:
		set("JMP", 0, false, Operand{Kind: "rel", Imm: d.imm(1), Size: 8})
	case op == 0xEA || op == 0x9A:
		off := d.imm(osz / 8)
		seg := d.imm(2) & 0xffff
		if osz == 16 {
			off &= 0xffff
		} else {
			off &= 0xffffffff
		}
		name := "JMP"
		if op == 0x9A {
			name = "CALL"
		}
		set(name, osz, true, Operand{Kind: "far", Seg: seg, Off: off, Size: osz})
	case op == 0xF6 || op == 0xF7:
		size := 8
		if op == 0xF7 {
			size = osz
		}
		reg, rm, isReg, m := d.modrm(asz)
		if reg < 2 {
			set("TEST", size, size != 8, rmOp(rm, isReg, m, size), immOp(d.imm(size/8), size))
		} else {
			set(grp3[reg], size, size != 8, rmOp(rm, isReg, m, size))
		}
	case op == 0xFE || op == 0xFF:
		size := 8
		if op == 0xFF {
			size = osz
		}
		reg, rm, isReg, m := d.modrm(asz)
		names := []string{"INC", "DEC", "CALL", "CALLF", "JMP", "JMPF", "PUSH", ""}
		if names[reg] == "" || (op == 0xFE && reg > 1) {
			return in, fmt.Errorf("FE/FF /%d", reg)
		}
		set(names[reg], size, size != 8, rmOp(rm, isReg, m, size))
	case op == 0x0F:
		op2 := d.u8()
		switch {
		case op2 >= 0x80 && op2 <= 0x8F:
			in.CC = int(op2 & 15)
			set("Jcc", osz, true, Operand{Kind: "rel", Imm: d.imm(osz / 8), Size: osz})
		case op2 == 0xA0 || op2 == 0xA8:
			set("PUSH", osz, true, Operand{Kind: "sreg", Reg: SReg[4+int(op2>>3&1)], Size: 16})
		case op2 == 0xA1 || op2 == 0xA9:
			set("POP", osz, true, Operand{Kind: "sreg", Reg: SReg[4+int(op2>>3&1)], Size: 16})
		case op2 == 0xAF:
			reg, rm, isReg, m := d.modrm(asz)
			set("IMUL", osz, true, regOp(reg, osz), rmOp(rm, isReg, m, osz))
		case op2 == 0x20 || op2 == 0x22:
			b := d.u8()
			if b>>6 != 3 {
				// mod is ignored by the CPU, but assemblers always emit 11
				return in, fmt.Errorf("MOV CRn with mod!=3")
			}
			cr := Operand{Kind: "creg", Reg: fmt.Sprintf("CR%d", int(b>>3)&7), Size: 32}
			r := regOp(int(b)&7, 32)
			if op2 == 0x20 {
				set("MOV", 32, false, r, cr)
			} else {
				set("MOV", 32, false, cr, r)
			}
		case op2 == 0x01:
			if d.p < len(b) && b[d.p]>>6 == 3 {
				return decodeFixed(b, mode)
			}
			reg, rm, isReg, m := d.modrm(asz)
			names := []string{"SGDT", "SIDT", "LGDT", "LIDT", "SMSW", "", "LMSW", "INVLPG"}
			if isReg || names[reg] == "" {
				return in, fmt.Errorf("0F01 /%d", reg)
			}
			_ = rm
			set(names[reg], osz, true, Operand{Kind: "mem", Mem: m, Size: 48})
		default:
			return decodeFixed(b, mode)
		}
	default:
		return decodeFixed(b, mode)
	}
	if d.err != nil {
		return in, d.err
	}
	useMem(in.Ops...)
	in.Len = d.p
	in.Bytes = append([]byte(nil), b[:d.p]...)
	return in, nil
}

// ExtraPrefixes lists prefixes that are present but do not contribute to the decoded meaning.
func (i Inst) ExtraPrefixes() []string {
	var out []string
	if i.Has66 && !i.Uses66 {
		out = append(out, "66")
	}
	if i.Has67 && !i.Uses67 {
		out = append(out, "67")
	}
	if i.SegOvr != "" && len(i.Names) == 0 {
		out = append(out, "seg:"+i.SegOvr)
	}
	if i.Rep != 0 && len(i.Names) == 0 {
		out = append(out, fmt.Sprintf("%02X", i.Rep))
	}
	return out
}
