package x86ref

import "testing"

func TestSelfCheck(t *testing.T) {
	n, bad := SelfCheck()
	if bad != "" {
		t.Fatal(bad)
	}
	t.Logf("%d pairs", n)
}
