package x86ref

import "fmt"

// SelfCheck: every fixed encoding decodes back to a name set containing its mnemonic, in both modes.
// (The encoder side for operand forms lives in encode.go and is checked there.)
func SelfCheck() (int, string) {
	n := 0
	for _, mode := range []int{16, 32} {
		for _, f := range fixedTable {
			for _, e := range FixedEncodings(f.name, mode) {
				in, err := Decode(e, mode)
				n++
				if err != nil {
					return n, fmt.Sprintf("%s % X mode %d: %v", f.name, e, mode, err)
				}
				ok := false
				for _, nm := range in.Names {
					if nm == f.name {
						ok = true
					}
				}
				if !ok || in.Len != len(e) {
					// some fixed encodings are also ordinary instructions (C3 = RET, CC = INT3)
					if in.Op == f.name || (f.name == "RETN" && in.Op == "RET") {
						continue
					}
					return n, fmt.Sprintf("%s % X mode %d decoded as %s", f.name, e, mode, in)
				}
			}
		}
		m, bad := encoderSelfCheck(mode)
		n += m
		if bad != "" {
			return n, bad
		}
	}
	return n, ""
}
