package x86ref

import (
	"bytes"
	"fmt"
)

// Fixed (operand-less) encodings, written from the Intel SDM / AMD APM opcode maps.
// o16/o32: the instruction has an operand-size attribute (a 66h prefix is needed when the mode's
// default differs). amb: in NASM/NASK usage the un-suffixed mnemonic follows the mode's default
// operand size while the Intel manual reads it as the 16-bit form; both readings are accepted.
type fixedEnc struct {
	name  string
	bytes []byte
	osz   int  // 0 = no operand-size attribute, 16/32 = needs that operand size
	amb   bool // accept with and without 66h
}

var fixedTable = []fixedEnc{
	{"AAA", []byte{0x37}, 0, false}, {"AAD", []byte{0xD5, 0x0A}, 0, false}, {"AAM", []byte{0xD4, 0x0A}, 0, false}, {"AAS", []byte{0x3F}, 0, false},
	{"CBW", []byte{0x98}, 16, false}, {"CWDE", []byte{0x98}, 32, false}, {"CWD", []byte{0x99}, 16, false}, {"CDQ", []byte{0x99}, 32, false},
	{"CLC", []byte{0xF8}, 0, false}, {"CLD", []byte{0xFC}, 0, false}, {"CLI", []byte{0xFA}, 0, false}, {"CLTS", []byte{0x0F, 0x06}, 0, false},
	{"CMC", []byte{0xF5}, 0, false}, {"CPUID", []byte{0x0F, 0xA2}, 0, false},
	{"CS", []byte{0x2E}, 0, false}, {"DS", []byte{0x3E}, 0, false}, {"ES", []byte{0x26}, 0, false}, {"FS", []byte{0x64}, 0, false}, {"GS", []byte{0x65}, 0, false}, {"SS", []byte{0x36}, 0, false},
	{"DAA", []byte{0x27}, 0, false}, {"DAS", []byte{0x2F}, 0, false}, {"EMMS", []byte{0x0F, 0x77}, 0, false},
	{"F2XM1", []byte{0xD9, 0xF0}, 0, false}, {"FABS", []byte{0xD9, 0xE1}, 0, false}, {"FADDP", []byte{0xDE, 0xC1}, 0, false}, {"FCHS", []byte{0xD9, 0xE0}, 0, false},
	{"FCLEX", []byte{0x9B, 0xDB, 0xE2}, 0, false}, {"FNCLEX", []byte{0xDB, 0xE2}, 0, false}, {"FCOM", []byte{0xD8, 0xD1}, 0, false}, {"FCOMP", []byte{0xD8, 0xD9}, 0, false},
	{"FCOMPP", []byte{0xDE, 0xD9}, 0, false}, {"FCOS", []byte{0xD9, 0xFF}, 0, false}, {"FDECSTP", []byte{0xD9, 0xF6}, 0, false},
	{"FDISI", []byte{0x9B, 0xDB, 0xE1}, 0, false}, {"FNDISI", []byte{0xDB, 0xE1}, 0, false}, {"FDIVP", []byte{0xDE, 0xF9}, 0, false}, {"FDIVRP", []byte{0xDE, 0xF1}, 0, false},
	{"FENI", []byte{0x9B, 0xDB, 0xE0}, 0, false}, {"FNENI", []byte{0xDB, 0xE0}, 0, false}, {"FINCSTP", []byte{0xD9, 0xF7}, 0, false},
	{"FINIT", []byte{0x9B, 0xDB, 0xE3}, 0, false}, {"FNINIT", []byte{0xDB, 0xE3}, 0, false},
	{"FLD1", []byte{0xD9, 0xE8}, 0, false}, {"FLDL2E", []byte{0xD9, 0xEA}, 0, false}, {"FLDL2T", []byte{0xD9, 0xE9}, 0, false}, {"FLDLG2", []byte{0xD9, 0xEC}, 0, false},
	{"FLDLN2", []byte{0xD9, 0xED}, 0, false}, {"FLDPI", []byte{0xD9, 0xEB}, 0, false}, {"FLDZ", []byte{0xD9, 0xEE}, 0, false}, {"FMULP", []byte{0xDE, 0xC9}, 0, false},
	{"FNOP", []byte{0xD9, 0xD0}, 0, false}, {"FNSETPM", []byte{0xDB, 0xE4}, 0, false}, {"FSETPM", []byte{0x9B, 0xDB, 0xE4}, 0, false},
	{"FPATAN", []byte{0xD9, 0xF3}, 0, false}, {"FPREM", []byte{0xD9, 0xF8}, 0, false}, {"FPREM1", []byte{0xD9, 0xF5}, 0, false}, {"FPTAN", []byte{0xD9, 0xF2}, 0, false},
	{"FRNDINT", []byte{0xD9, 0xFC}, 0, false}, {"FSCALE", []byte{0xD9, 0xFD}, 0, false}, {"FSIN", []byte{0xD9, 0xFE}, 0, false}, {"FSINCOS", []byte{0xD9, 0xFB}, 0, false},
	{"FSQRT", []byte{0xD9, 0xFA}, 0, false}, {"FSUBP", []byte{0xDE, 0xE9}, 0, false}, {"FSUBRP", []byte{0xDE, 0xE1}, 0, false}, {"FTST", []byte{0xD9, 0xE4}, 0, false},
	{"FUCOM", []byte{0xDD, 0xE1}, 0, false}, {"FUCOMP", []byte{0xDD, 0xE9}, 0, false}, {"FUCOMPP", []byte{0xDA, 0xE9}, 0, false}, {"FXAM", []byte{0xD9, 0xE5}, 0, false},
	{"FXCH", []byte{0xD9, 0xC9}, 0, false}, {"FXTRACT", []byte{0xD9, 0xF4}, 0, false}, {"FYL2X", []byte{0xD9, 0xF1}, 0, false}, {"FYL2XP1", []byte{0xD9, 0xF9}, 0, false},
	{"GETSEC", []byte{0x0F, 0x37}, 0, false}, {"HLT", []byte{0xF4}, 0, false}, {"ICEBP", []byte{0xF1}, 0, false}, {"INTO", []byte{0xCE}, 0, false}, {"INVD", []byte{0x0F, 0x08}, 0, false},
	{"IRET", []byte{0xCF}, 16, true}, {"IRETD", []byte{0xCF}, 32, false}, {"LAHF", []byte{0x9F}, 0, false}, {"LEAVE", []byte{0xC9}, 0, false},
	{"LFENCE", []byte{0x0F, 0xAE, 0xE8}, 0, false}, {"LOADALL", []byte{0x0F, 0x07}, 0, false}, {"LOCK", []byte{0xF0}, 0, false}, {"MFENCE", []byte{0x0F, 0xAE, 0xF0}, 0, false},
	{"MONITOR", []byte{0x0F, 0x01, 0xC8}, 0, false}, {"MWAIT", []byte{0x0F, 0x01, 0xC9}, 0, false}, {"NOP", []byte{0x90}, 0, false}, {"PAUSE", []byte{0xF3, 0x90}, 0, false},
	{"POPA", []byte{0x61}, 16, true}, {"POPAD", []byte{0x61}, 32, false}, {"POPF", []byte{0x9D}, 16, true}, {"POPFD", []byte{0x9D}, 32, false},
	{"PUSHA", []byte{0x60}, 16, true}, {"PUSHAD", []byte{0x60}, 32, false}, {"PUSHF", []byte{0x9C}, 16, true}, {"PUSHFD", []byte{0x9C}, 32, false},
	{"RDMSR", []byte{0x0F, 0x32}, 0, false}, {"RDPMC", []byte{0x0F, 0x33}, 0, false}, {"RDTSC", []byte{0x0F, 0x31}, 0, false}, {"RDTSCP", []byte{0x0F, 0x01, 0xF9}, 0, false},
	{"REP", []byte{0xF3}, 0, false}, {"REPE", []byte{0xF3}, 0, false}, {"REPNE", []byte{0xF2}, 0, false}, {"RETF", []byte{0xCB}, 0, false}, {"RETN", []byte{0xC3}, 0, false}, {"RET", []byte{0xC3}, 0, false},
	{"RSM", []byte{0x0F, 0xAA}, 0, false}, {"SAHF", []byte{0x9E}, 0, false}, {"SETALC", []byte{0xD6}, 0, false}, {"SFENCE", []byte{0x0F, 0xAE, 0xF8}, 0, false},
	{"STC", []byte{0xF9}, 0, false}, {"STD", []byte{0xFD}, 0, false}, {"STI", []byte{0xFB}, 0, false}, {"SYSCALL", []byte{0x0F, 0x05}, 0, false}, {"SYSENTER", []byte{0x0F, 0x34}, 0, false},
	{"SYSEXIT", []byte{0x0F, 0x35}, 0, false}, {"SYSRET", []byte{0x0F, 0x07}, 0, false}, {"TAKEN", []byte{0x3E}, 0, false}, {"UD2", []byte{0x0F, 0x0B}, 0, false},
	{"VMCALL", []byte{0x0F, 0x01, 0xC1}, 0, false}, {"VMLAUNCH", []byte{0x0F, 0x01, 0xC2}, 0, false}, {"VMRESUME", []byte{0x0F, 0x01, 0xC3}, 0, false}, {"VMXOFF", []byte{0x0F, 0x01, 0xC4}, 0, false},
	{"WAIT", []byte{0x9B}, 0, false}, {"WBINVD", []byte{0x0F, 0x09}, 0, false}, {"WRMSR", []byte{0x0F, 0x30}, 0, false}, {"XGETBV", []byte{0x0F, 0x01, 0xD0}, 0, false}, {"XSETBV", []byte{0x0F, 0x01, 0xD1}, 0, false},
	{"INT3", []byte{0xCC}, 0, false},
}

// NotEncodable: mnemonics of gosk's no-operand list that have no operand-less encoding in
// 16/32-bit mode (64-bit only, or they require operands): they must be diagnosed (C07), and are
// outside C01's catalogue.
var NotEncodable = map[string]string{
	"CDQE": "64-bit only", "CQO": "64-bit only", "IRETQ": "64-bit only", "POPFQ": "64-bit only", "PUSHFQ": "64-bit only", "SWAPGS": "64-bit only",
	"DIV": "needs an operand", "IDIV": "needs an operand", "MUL": "needs an operand", "IMUL": "needs an operand", "ENTER": "needs operands",
	"FRSTOR": "needs a memory operand", "FXRSTOR": "needs a memory operand", "XRSTOR": "needs a memory operand", "JMPE": "IA-64 only",
}

// FixedEncodings returns every byte string that validly encodes the operand-less mnemonic in mode.
func FixedEncodings(name string, mode int) [][]byte {
	var out [][]byte
	for _, f := range fixedTable {
		if f.name != name {
			continue
		}
		plain := append([]byte(nil), f.bytes...)
		pref := append([]byte{0x66}, f.bytes...)
		switch {
		case f.osz == 0:
			out = append(out, plain)
		case f.amb:
			out = append(out, plain)
			if f.osz != mode {
				out = append(out, pref)
			}
		case f.osz == mode:
			out = append(out, plain)
		default:
			out = append(out, pref)
		}
	}
	return out
}

// decodeFixed recognises b as exactly one fixed encoding; Names lists every mnemonic it denotes.
func decodeFixed(b []byte, mode int) (Inst, error) {
	var in Inst
	best := 0
	for _, f := range fixedTable {
		for _, e := range FixedEncodings(f.name, mode) {
			if len(e) <= len(b) && bytes.Equal(b[:len(e)], e) {
				if len(e) > best {
					best = len(e)
					in.Names = nil
				}
				if len(e) == best {
					in.Names = append(in.Names, f.name)
				}
			}
		}
	}
	if best == 0 {
		return in, fmt.Errorf("unknown opcode % x", b[:min(len(b), 4)])
	}
	in.Op = in.Names[0]
	in.Len = best
	in.Bytes = append([]byte(nil), b[:best]...)
	return in, nil
}
