module verifengine

go 1.22
