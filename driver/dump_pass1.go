// inject: internal/pass1
//go:build verif

package pass1

import (
	"sort"
	"strings"
)

// VerifStateDigest: the key set of the process-global handler table (read only).
func VerifStateDigest() string {
	keys := make([]string, 0, len(opcodeEvalFns))
	for k := range opcodeEvalFns {
		keys = append(keys, k)
	}
	sort.Strings(keys)
	return strings.Join(keys, ",")
}
