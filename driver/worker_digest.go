//go:build verif

package main

import (
	"crypto/sha256"
	"encoding/hex"

	"github.com/HobbyOSs/gosk/internal/codegen"
	"github.com/HobbyOSs/gosk/internal/pass1"
	"github.com/HobbyOSs/gosk/pkg/asmdb"
)

// globalDigest combines the digests exposed by the injected zz_verif_* dumpers.
func globalDigest() string {
	h := sha256.New()
	h.Write([]byte(asmdb.VerifStateDigest()))
	h.Write([]byte{0})
	h.Write([]byte(pass1.VerifStateDigest()))
	h.Write([]byte{0})
	h.Write([]byte(codegen.VerifStateDigest()))
	return hex.EncodeToString(h.Sum(nil)[:8])
}
