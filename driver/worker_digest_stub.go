//go:build verif

package main

// globalDigest is replaced by worker_digest.go when the state dumpers are injected.
func globalDigest() string { return "" }
