//go:build verif

// Batch worker injected into the gosk module BY OVERLAY ONLY (as cmd/verifworker/main.go).
// It performs exactly what cmd/gosk/main.go does for one source text
// (gen.Parse with Entrypoint("Program"), then frontend.Exec) with colog configured as
// setUpColog(false) but writing into a buffer, and reports what it observed as JSON lines.
package main

import (
	"bufio"
	"bytes"
	"crypto/sha256"
	"encoding/hex"
	"encoding/json"
	"fmt"
	"log"
	"os"
	"path/filepath"
	"reflect"
	"sort"
	"runtime/debug"
	"syscall"
	"time"

	"github.com/HobbyOSs/gosk/internal/frontend"
	"github.com/HobbyOSs/gosk/internal/gen"
	"github.com/comail/colog"
)

type op struct {
	Src   []byte `json:"src"`   // source text (ignored when Reuse)
	Pre   []byte `json:"pre"`   // if HasPre: destination file is pre-filled with these bytes
	HasPre bool  `json:"has_pre"`
	Reuse bool   `json:"reuse"` // run Exec again on the previously parsed tree
	Digest bool  `json:"digest"` // also return the digest of process-global state
}

type request struct {
	Ops []op `json:"ops"`
}

type result struct {
	Out      []byte           `json:"out"`
	OutExists bool            `json:"out_exists"`
	Diag     string           `json:"diag"`
	Stdout   string           `json:"stdout"`
	Panic    string           `json:"panic"`
	ParseErr string           `json:"parse_err"`
	LOC      int32            `json:"loc"`
	Dollar   uint32           `json:"dollar"`
	Sym      map[string]int32 `json:"sym"`
	Format   string           `json:"format"`
	Digest   string           `json:"digest"`
	TreeBefore string         `json:"tree_before"`
	TreeAfter  string         `json:"tree_after"`
	Micros   int64            `json:"us"`
}

type response struct {
	Res []result `json:"res"`
}

var logBuf bytes.Buffer
var capFile *os.File
var lastTree any
var haveTree bool

func runOne(o op, dir string, n int) (r result) {
	dst := filepath.Join(dir, fmt.Sprintf("o%d.bin", n%4))
	os.Remove(dst)
	if o.HasPre {
		os.WriteFile(dst, o.Pre, 0o644)
	}
	logBuf.Reset()
	capFile.Truncate(0)
	capFile.Seek(0, 0)
	start := time.Now()
	func() {
		defer func() {
			if e := recover(); e != nil {
				r.Panic = fmt.Sprintf("%v\n%s", e, firstLines(string(debug.Stack()), 40))
			}
		}()
		var tree any
		if o.Reuse {
			if !haveTree {
				r.ParseErr = "verifworker: no tree to reuse"
				return
			}
			tree = lastTree
		} else {
			if err := gen.CheckNesting(o.Src); err != nil { // as cmd/gosk/main.go does before parsing
				r.ParseErr = fmt.Sprintf("%+v", err)
				haveTree = false
				return
			}
			t, err := gen.Parse("", o.Src, gen.Entrypoint("Program"), gen.Debug(false))
			if err != nil {
				r.ParseErr = fmt.Sprintf("%+v", err)
				haveTree = false
				return
			}
			tree = t
			lastTree = t
			haveTree = true
		}
		if o.Digest {
			r.TreeBefore = treeDigest(tree)
		}
		p1, _ := frontend.Exec(tree, dst)
		if o.Digest {
			r.TreeAfter = treeDigest(tree)
		}
		if p1 != nil {
			r.LOC = p1.LOC
			r.Dollar = p1.DollarPosition
			r.Format = p1.OutputFormat
			r.Sym = make(map[string]int32, len(p1.SymTable))
			for k, v := range p1.SymTable {
				r.Sym[k] = v
			}
		}
	}()
	r.Micros = time.Since(start).Microseconds()
	if b, err := os.ReadFile(dst); err == nil {
		r.Out = b
		r.OutExists = true
	}
	r.Diag = logBuf.String()

	if b, err := os.ReadFile(capFile.Name()); err == nil {
		r.Stdout = string(b)
	}
	if o.Digest {
		r.Digest = globalDigest()
	}
	return r
}

// treeDigest: digest of the parsed syntax tree: a reflective deep dump that follows pointers and
// interfaces (cycle-guarded) and prints no addresses or capacities.
func treeDigest(tree any) string {
	h := sha256.New()
	seen := map[uintptr]bool{}
	var walk func(v reflect.Value, depth int)
	walk = func(v reflect.Value, depth int) {
		if depth > 200 {
			fmt.Fprint(h, "<deep>")
			return
		}
		switch v.Kind() {
		case reflect.Invalid:
			fmt.Fprint(h, "<nil>")
		case reflect.Ptr:
			if v.IsNil() {
				fmt.Fprint(h, "<nilptr>")
				return
			}
			if seen[v.Pointer()] {
				fmt.Fprint(h, "<cycle>")
				return
			}
			seen[v.Pointer()] = true
			fmt.Fprint(h, "&")
			walk(v.Elem(), depth+1)
			delete(seen, v.Pointer())
		case reflect.Interface:
			if v.IsNil() {
				fmt.Fprint(h, "<nilif>")
				return
			}
			fmt.Fprintf(h, "(%s)", v.Elem().Type())
			walk(v.Elem(), depth+1)
		case reflect.Struct:
			fmt.Fprintf(h, "%s{", v.Type())
			for i := 0; i < v.NumField(); i++ {
				fmt.Fprintf(h, "%s:", v.Type().Field(i).Name)
				walk(v.Field(i), depth+1)
				fmt.Fprint(h, ";")
			}
			fmt.Fprint(h, "}")
		case reflect.Slice, reflect.Array:
			fmt.Fprintf(h, "[%d:", v.Len())
			for i := 0; i < v.Len(); i++ {
				walk(v.Index(i), depth+1)
				fmt.Fprint(h, ",")
			}
			fmt.Fprint(h, "]")
		case reflect.Map:
			keys := v.MapKeys()
			sort.Slice(keys, func(i, j int) bool { return fmt.Sprint(keys[i]) < fmt.Sprint(keys[j]) })
			fmt.Fprint(h, "map{")
			for _, k := range keys {
				fmt.Fprintf(h, "%v=>", k)
				walk(v.MapIndex(k), depth+1)
				fmt.Fprint(h, ",")
			}
			fmt.Fprint(h, "}")
		case reflect.String:
			fmt.Fprintf(h, "%q", v.String())
		case reflect.Bool:
			fmt.Fprint(h, v.Bool())
		case reflect.Int, reflect.Int8, reflect.Int16, reflect.Int32, reflect.Int64:
			fmt.Fprint(h, v.Int())
		case reflect.Uint, reflect.Uint8, reflect.Uint16, reflect.Uint32, reflect.Uint64, reflect.Uintptr:
			fmt.Fprint(h, v.Uint())
		case reflect.Float32, reflect.Float64:
			fmt.Fprint(h, v.Float())
		default:
			fmt.Fprintf(h, "<%s>", v.Kind())
		}
	}
	walk(reflect.ValueOf(tree), 0)
	return hex.EncodeToString(h.Sum(nil)[:8])
}

func firstLines(s string, n int) string {
	lines := bytes.SplitN([]byte(s), []byte("\n"), n+1)
	if len(lines) > n {
		lines = lines[:n]
	}
	return string(bytes.Join(lines, []byte("\n")))
}

func main() {
	// protocol channel = a dup of the original stdout; fd 1 then goes to a capture file so that
	// the "GOSK : ..." messages fmt.Printf'ed by the code under test are observed, not mixed in.
	protoFd, err := syscall.Dup(1)
	if err != nil {
		panic(err)
	}
	proto := os.NewFile(uintptr(protoFd), "proto")
	dir, err := os.MkdirTemp("", "verifworker")
	if err != nil {
		panic(err)
	}
	defer os.RemoveAll(dir)
	capFile, err = os.OpenFile(filepath.Join(dir, "stdout.cap"), os.O_RDWR|os.O_CREATE|os.O_TRUNC, 0o644)
	if err != nil {
		panic(err)
	}
	if err := syscall.Dup2(int(capFile.Fd()), 1); err != nil {
		panic(err)
	}

	// exactly setUpColog(false) of cmd/gosk/main.go, but into a buffer
	colog.Register()
	colog.SetDefaultLevel(colog.LInfo)
	colog.SetMinLevel(colog.LInfo)
	colog.SetFlags(log.Lshortfile)
	colog.SetFormatter(&colog.StdFormatter{Colors: false})
	colog.SetOutput(&logBuf)

	in := bufio.NewReaderSize(os.Stdin, 1<<20)
	out := bufio.NewWriterSize(proto, 1<<20)
	enc := json.NewEncoder(out)
	n := 0
	for {
		line, err := in.ReadBytes('\n')
		if len(line) > 0 {
			var req request
			if e := json.Unmarshal(line, &req); e != nil {
				fmt.Fprintf(os.Stderr, "verifworker: bad request: %v\n", e)
				os.RemoveAll(dir)
				os.Exit(3)
			}
			var resp response
			for _, o := range req.Ops {
				resp.Res = append(resp.Res, runOne(o, dir, n))
				n++
			}
			enc.Encode(&resp)
			out.Flush()
		}
		if err != nil {
			break
		}
	}
	os.RemoveAll(dir)
}
