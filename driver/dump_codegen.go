// inject: internal/codegen
//go:build verif

package codegen

import (
	"fmt"
	"sort"
	"strings"
)

// VerifStateDigest: contents of the process-global opcode tables (read only).
func VerifStateDigest() string {
	var items []string
	for k, v := range opcodeMap {
		items = append(items, fmt.Sprintf("%d=%02x", int(k), v))
	}
	for k, v := range opcodeMapRET {
		items = append(items, fmt.Sprintf("R%d=%02x", int(k), v))
	}
	sort.Strings(items)
	return strings.Join(items, ",")
}
