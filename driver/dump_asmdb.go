// inject: pkg/asmdb
//go:build verif

package asmdb

import (
	"crypto/sha256"
	"encoding/hex"
	"encoding/json"
)

// VerifStateDigest: digest of the process-global instruction table (read only).
func VerifStateDigest() string {
	b, err := json.Marshal(instructionData)
	if err != nil {
		return "marshal-error:" + err.Error()
	}
	h := sha256.Sum256(b)
	return hex.EncodeToString(h[:8])
}
