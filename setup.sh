#!/bin/bash
# setup_cmd: offline build of the engine + one warm-up build of worker and CLI (fills the Go build cache).
set -e
. "$(dirname "$0")/env.sh"
cd "$VERIF_DIR/engine"
mkdir -p "$VERIF_DIR/bin"
go build -o "$VERIF_DIR/bin/verifengine" .
W=$(mktemp -d)
trap 'rm -rf "$W"' EXIT
"$VERIF_DIR/build_repo.sh" "$W" >/dev/null
echo "setup ok"
