#!/bin/bash
# run_all.sh [quick|thorough]: runs every registered check on /repo as it is and summarises.
cd "$(dirname "$0")"
TIER="${1:-quick}"
rc=0
mkdir -p replays; : > "replays/known_matched_$TIER.txt"   # which finding entries matched (tools/stale_findings.py)
for id in $(python3 -c "import json;print(' '.join(c['property_id'] for c in json.load(open('MANIFEST.json'))['checks']))"); do
  s=$(date +%s)
  out=$(./check "$id" --tier "$TIER" 2>&1); code=$?
  e=$(( $(date +%s) - s ))
  viol=$(echo "$out" | grep -c '^VIOLATION')
  known=$(echo "$out" | grep -c '^KNOWN-FINDING')
  echo "$out" | grep '^KNOWN-FINDING' >> "replays/known_matched_$TIER.txt"
  echo "$id exit=$code violations=$viol known_findings=$known ${e}s"
  [ $code -ne 0 ] && { rc=1; echo "$out" | grep -v '^KNOWN' | tail -5; }
done
exit $rc
