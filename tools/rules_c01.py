def mn(e, *names): return set(e["cell"].get("mn", [])) <= set(names) and e["cell"].get("mn")
RULES = [
 ("C01-F01", "ADC/SBB are sized by pass 1 (pass1_inst_arithmetic.go processADC/processSBB emit an ocode line) but codegen has no OpADC/OpSBB case in processOcode: the 'not implemented' error is logged only at debug level through a dropped Emit error, nothing is emitted, exit status 0",
  lambda e: e["facet"]=="dropped_silently" and mn(e,"ADC","SBB"), ["mn"]),
 ("C01-F02", "INC/DEC/NEG are sized by pass 1 but have no ocode kind / codegen handler: no bytes, no diagnostic, exit status 0",
  lambda e: e["facet"]=="dropped_silently" and mn(e,"INC","DEC","NEG"), ["mn"]),
 ("C01-F03", "MUL/DIV/IDIV with an operand are routed to the operand-less opcodeMap entry (x86gen_no_param.go: OpMUL/OpDIV/OpIDIV -> F6) and emit the single byte F6 without ModR/M",
  lambda e: e["facet"]=="decode" and e["deviation"]=="undecodable:F6" and mn(e,"MUL","DIV","IDIV"), ["mn","form"]),
 ("C01-F04", "operand-less opcodes: internal/codegen/x86gen_no_param.go opcodeMap holds ONE byte per mnemonic, so two/three-byte opcodes lose bytes, 66h is never added for CBW/CWDE/CWD/CDQ/PUSHAD/POPAD/PUSHFD/POPFD/IRETD in the other mode, and REP maps to F2. The repository test TestGenerateX86NoParam pins exactly this table, so it cannot be repaired without editing the suite",
  lambda e: e["scenario"]=="no_operand" and e["facet"]=="opcode", ["mn","mode","form"]),
]
