#!/usr/bin/env python3
"""tools/seed_table.py <final-results.txt> [<first-run-results.txt> ...]
Reads the output of tools/run_seeded.sh, stores it as caught_by in every seeded/<id>/meta.json and prints the
markdown table used in DESIGN.md section 11 (first-run column: meta.caught_by.when_first_run for round 1, the
round-2 first-run file for round 2)."""
import json, re, sys, glob, os
VER = os.path.dirname(os.path.dirname(os.path.abspath(__file__)))
def parse(path):
    res = {}
    for line in open(path, errors="replace"):
        m = re.match(r"seeded/(\w+): ?(.*)$", line.rstrip("\n"))
        if not m: continue
        sid, rest = m.groups()
        r = {"raw": rest}
        mm = re.search(r"\[(C\d+):(quick|thorough) exit=(\d+) violations_listed=(\d+)\s*(.*?)\]\s*$", rest)
        if mm:
            r.update(check=mm.group(1), tier=mm.group(2), exit=int(mm.group(3)), listed=int(mm.group(4)))
            d = mm.group(5)
            c = re.search(r"case: (.*?)\s+facet=(\S+) deviation=(.*)$", d)
            if c: r.update(case=c.group(1).strip(), facet=c.group(2), deviation=c.group(3).strip())
        res[sid] = r
    return res
final = parse(sys.argv[1])
first2 = {}
for fp in sys.argv[2:]:
    first2.update(parse(fp))
def first_run_text(sid, meta):
    old = meta.get("caught_by", {}).get("when_first_run")
    if old: return old
    r = first2.get(sid)
    if not r: return "n/a"
    if "check" not in r: return "patch no longer applied (rebased, then caught)" if "apply" in r["raw"] else r["raw"][:60]
    if r["exit"] == 1 and r["listed"] > 0: return "caught (%s)" % r["tier"]
    if r["exit"] == 1: return "exit 1 without a VIOLATION line (harness defect, corrected)"
    return "MISSED"
rows = []
for p in sorted(glob.glob(VER + "/seeded/*/meta.json")):
    sid = p.split("/")[-2]
    meta = json.load(open(p))
    fr = first_run_text(sid, meta)
    r = final.get(sid, {})
    now = "NOT RUN"
    if r.get("exit") == 1 and r.get("listed", 0) > 0:
        now = "%s %s: `%s` / `%s`" % (r["check"], r["tier"], r.get("facet", "?"), r.get("deviation", "?")[:70])
        meta["caught_by"] = {"check": r["check"], "tier": r["tier"], "facet": r.get("facet"), "deviation": r.get("deviation"),
                             "first_case": r.get("case"), "when_first_run": fr,
                             "ran": "tools/run_seeded.sh (patch applied to a scratch worktree of /repo, ./check %s with REPO_DIR pointing at it)" % r["check"]}
        json.dump(meta, open(p, "w"), indent=1, ensure_ascii=False)
    elif r:
        now = "NOT CAUGHT: " + r["raw"][:80]
    what = re.sub(r"\s+", " ", meta.get("what", ""))[:170].replace("|", "/")
    rows.append("| %s | %s | %s | %s |" % (sid, what, fr, now))
print("| seed | change (abridged; full text in seeded/<id>/meta.json) | first run | now caught by |")
print("|------|--------------------------------------------------------|-----------|---------------|")
print("\n".join(rows))
