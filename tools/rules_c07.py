def mn(e): return (e["cell"].get("mn") or [""])[0]
NOPARAM_MULTI = {"PUSHFD","PUSHAD","POPFD","POPAD","IRETD","CWDE","CLTS","REP","CDQ","CWD","CBW","PUSHA","POPA","PUSHF","POPF","IRET"}
KEEP = ["mn", "kinds"]
RULES = [
 ("C07-F01", "operand-less opcode table (internal/codegen/x86gen_no_param.go opcodeMap, pinned by TestGenerateX86NoParam): one byte per mnemonic, so the bytes emitted are a different instruction (missing 66h / missing second opcode byte / REP = F2); accepted without any diagnostic (same root cause as C01-F04)",
  lambda e: e["facet"]=="accepted_invalid" and e["deviation"]=="other_instruction" and e["cell"].get("kinds")==[""] , KEEP),
 ("C07-F02", "a segment register written where a general register is required (ALU, NOT, MOV Sreg,Sreg/imm/mem forms, IMUL) is classified as r16 by pkg/ng_operand and encoded with its number as a general register: NOT ES -> F7 D0 (NOT AX), MOV ES,ES -> 89 C0, no diagnostic",
  lambda e: e["facet"]=="accepted_invalid" and e["deviation"]=="operand_mismatch:sreg", KEEP),
 ("C07-F03", "a branch whose numeric target needs 32 bits, in 16-bit mode: handleJcc/handleCALL emit the rel32 form (0F 8x cd / E8 cd) without the 66h prefix that JMP gets, so the CPU reads a rel16 branch followed by two stray bytes; no diagnostic",
  lambda e: e["facet"]=="accepted_invalid" and e["deviation"]=="extra_bytes" and (mn(e).startswith("J") or mn(e)=="CALL"), KEEP),
 ("C07-F04", "DB/DW/DD without any operand are accepted and emit nothing (processDB/processDW/processDD loop over an empty list)",
  lambda e: e["facet"]=="accepted_invalid" and e["deviation"]=="directive_without_operand", KEEP),
 ("C07-F05", "an undefined name inside a memory operand ([name]) is parsed by ng_operand as displacement 0 and assembled silently (same root cause as C03-F01); GLOBAL of an undefined name is ignored silently for flat binaries",
  lambda e: e["scenario"]=="undefined_symbols", ["stmt"]),
 ("C07-F06", "Program <- Statement* END does not require end of input: after a leading newline, a first line that is not a statement (garbage, lower-case mnemonic, unknown mnemonic, or a label - LabelStmt cannot skip the newline) ends the parse successfully with zero statements: the whole file is ignored, empty output, exit 0 (same root cause as C12-F03)",
  lambda e: e["scenario"]=="file_shapes", ["prefix","first"]),
]
