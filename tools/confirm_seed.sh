#!/bin/bash
# tools/confirm_seed.sh <worktree> <SEED_dir_name> <dest_name>
# Confirms a seeded change independently: demo passes on the clean worktree; with the patch the
# tree builds, the repository's whole test suite passes, and the demo fails. Then files it under
# /verif/seeded/<dest_name>/ with the confirmation record added to meta.json.
set -u
export GOFLAGS=-mod=mod GOPROXY=off GOSUMDB=off GOTOOLCHAIN=local
WT="$1"; SD="$2"; DEST="$3"
VER="$(cd "$(dirname "$0")/.." && pwd)"
cd "$WT" || exit 3
if [ -n "$(git status --porcelain | grep -v '^?? SEED_' | grep -v '^?? gosk_bin')" ]; then echo "worktree not clean"; git status --short; exit 3; fi
rundemo() {
  if [ -f "$SD/demo.sh" ]; then bash "$SD/demo.sh" >"/tmp/demo.$$.log" 2>&1; return $?; fi
  # Go test demo: meta.json names the placement as "demo_place": "<dir>"
  place="${DEMO_PLACE:-}"
  [ -z "$place" ] && { echo "no demo.sh and no DEMO_PLACE given"; return 99; }
  f=$(ls "$SD"/*_test.go | head -1)
  cp "$f" "$place/zz_seed_demo_test.go"
  go test -vet=off -count=1 -tags "${DEMO_TAGS:-}" -run "${DEMO_RUN:-Seed|Demo}" "./$place/" >"/tmp/demo.$$.log" 2>&1; rc=$?
  rm -f "$place/zz_seed_demo_test.go"
  return $rc
}
rundemo; clean_rc=$?
git apply "$SD/patch.diff" || { echo "patch does not apply"; exit 3; }
go build ./... >/tmp/build.$$.log 2>&1; build_rc=$?
go test -vet=off -count=1 ./... >/tmp/suite.$$.log 2>&1; suite_rc=$?
rundemo; patched_rc=$?
git checkout -- . ; git clean -fdq -e 'SEED_*' . >/dev/null 2>&1
echo "$DEST: demo_on_clean=$clean_rc build=$build_rc suite=$suite_rc demo_with_patch=$patched_rc"
if [ $clean_rc -eq 0 ] && [ $build_rc -eq 0 ] && [ $suite_rc -eq 0 ] && [ $patched_rc -ne 0 ] && [ $patched_rc -ne 99 ]; then
  mkdir -p "$VER/seeded/$DEST"
  cp -r "$SD"/. "$VER/seeded/$DEST/"
  python3 - "$VER/seeded/$DEST/meta.json" "$clean_rc" "$patched_rc" <<'PY'
import json,sys
p=sys.argv[1]; m=json.load(open(p))
m["confirmed"]={"by":"verif author, in a scratch worktree of /repo at the commit the seed was written against","demo_on_clean_exit":int(sys.argv[2]),"with_patch":{"go build ./...":"ok","go test -vet=off -count=1 ./...":"all packages ok","demo_exit":int(sys.argv[3])}}
json.dump(m,open(p,"w"),indent=1,ensure_ascii=False)
PY
  echo "  CONFIRMED -> seeded/$DEST"
else
  echo "  NOT CONFIRMED (see /tmp/demo.$$.log /tmp/suite.$$.log)"; tail -5 /tmp/suite.$$.log | grep -v "^ok\|no test files"
fi
