#!/usr/bin/env python3
"""tools/stale_findings.py [tier]: after ./run_all.sh <tier>, lists entries of known_findings.jsonl that matched no
failure (a finding entry that no longer occurs must be removed: it could hide the defect's return)."""
import json, re, sys, os
VER = os.path.dirname(os.path.dirname(os.path.abspath(__file__)))
tier = sys.argv[1] if len(sys.argv) > 1 else "thorough"
seen = set()
for l in open(f"{VER}/replays/known_matched_{tier}.txt"):
    m = re.match(r"KNOWN-FINDING: property=\S+ (\S+)", l)
    if m: seen.add(m.group(1))
stale = [json.loads(l)["id"] for l in open(f"{VER}/known_findings.jsonl") if json.loads(l)["kind"] == "finding" and json.loads(l)["id"] not in seen]
print(f"{len(seen)} finding entries matched in the {tier} tier; {len(stale)} entries matched nothing:")
for s in stale: print("  ", s)
