#!/bin/bash
# tools/reconfirm_seeds.sh [-j N] [seed-dir ...]
# Re-confirms stored seeded changes against /repo's CURRENT HEAD (after later fix: commits):
#   demo passes on the clean tree; the patch applies; go build ./... succeeds; the repository's whole
#   test suite passes; the demo fails with the patch.
# Works in scratch worktrees under /tmp (removed afterwards); /repo itself is not touched.
# Prints one line per seed: <id>: apply=.. demo_on_clean=.. build=.. suite=.. demo_with_patch=.. => OK|STALE
set -u
export GOFLAGS=-mod=mod GOPROXY=off GOSUMDB=off GOTOOLCHAIN=local
VER="$(cd "$(dirname "$0")/.." && pwd)"
J=6
if [ "${1:-}" = "-j" ]; then J="$2"; shift 2; fi
cd "$VER"
dirs=("$@"); [ ${#dirs[@]} -eq 0 ] && dirs=(seeded/*/)

one() { # $1 = worktree, $2 = seed dir (relative to $VER)
  local WT="$1" d="${2%/}" id; id=$(basename "$d")
  local SD="$WT/SEED_$id"
  rm -rf "$SD"; cp -r "$VER/$d" "$SD"
  cd "$WT" || return
  rundemo() {
    if [ -f "$SD/demo.sh" ]; then bash "$SD/demo.sh" "$WT" >"$WT/.demo.log" 2>&1; return $?; fi
    local place tags run f
    case "$id" in
      C03_A) place=test; tags=seedc03; run=TestSeedC03A;;
      C03_B) place=test; tags=seedc03; run=TestSeedC03B;;
      C10_A) place=internal/frontend; tags=c10demo; run=TestC10SeedA;;
      C10_B) place=internal/frontend; tags=c10demo; run=TestC10SeedB;;
      *) place=$(python3 -c "import json;print(json.load(open('$SD/meta.json')).get('demo_place',''))" 2>/dev/null); tags=; run='TestSeed'
         [ -z "$place" ] && return 99;;
    esac
    f=$(ls "$SD"/*_test.go | head -1)
    cp "$f" "$place/zz_seed_demo_test.go"
    go test -vet=off -count=1 -tags "$tags" -run "$run" "./$place/" >"$WT/.demo.log" 2>&1; local rc=$?
    rm -f "$place/zz_seed_demo_test.go"
    return $rc
  }
  local clean_rc apply_rc build_rc=- suite_rc=- patched_rc=-
  rundemo; clean_rc=$?
  git apply "$SD/patch.diff" 2>/dev/null; apply_rc=$?
  if [ $apply_rc -eq 0 ]; then
    go build ./... >"$WT/.build.log" 2>&1; build_rc=$?
    go test -vet=off -count=1 ./... >"$WT/.suite.log" 2>&1; suite_rc=$?
    rundemo; patched_rc=$?
  fi
  git checkout -q -- . ; git clean -fdq . >/dev/null 2>&1
  local verdict=STALE
  if [ "$clean_rc" = 0 ] && [ "$apply_rc" = 0 ] && [ "$build_rc" = 0 ] && [ "$suite_rc" = 0 ] && [ "$patched_rc" != 0 ] && [ "$patched_rc" != 99 ] && [ "$patched_rc" != - ]; then verdict=OK; fi
  echo "$id: apply=$apply_rc demo_on_clean=$clean_rc build=$build_rc suite=$suite_rc demo_with_patch=$patched_rc => $verdict"
}

pids=()
for ((w=0; w<J; w++)); do
  (
    WT="/tmp/reconf_$$_$w"
    git -C /repo worktree add -q --detach "$WT" HEAD || exit 3
    for ((i=w; i<${#dirs[@]}; i+=J)); do one "$WT" "${dirs[$i]}"; done
    cd /; git -C /repo worktree remove --force "$WT" 2>/dev/null
  ) &
  pids+=($!)
done
wait
