#!/bin/bash
# tools/run_seeded.sh [seed-dir ...]: applies each seeded change to /repo, runs the check(s) of the
# property it breaks (quick, then thorough if quick is silent), reverts, and prints one line per seed.
# /repo must be clean before; it is left clean.
cd "$(dirname "$0")/.."
. ./env.sh
# the seeds are applied to a scratch worktree of /repo (never to /repo itself), and the checks are
# pointed at it through REPO_DIR
SCRATCH="${SEED_SCRATCH:-/tmp/seed_scratch_$$}"
git -C /repo worktree add -q --detach "$SCRATCH" HEAD || exit 3
trap 'git -C /repo worktree remove --force "$SCRATCH" 2>/dev/null' EXIT
export REPO_DIR="$SCRATCH"
dirs=("$@"); [ ${#dirs[@]} -eq 0 ] && dirs=(seeded/*/)
for d in "${dirs[@]}"; do
  d="${d%/}"
  [ -f "$d/patch.diff" ] || continue
  prop=$(python3 -c "import json;print(json.load(open('$d/meta.json'))['property'])")
  also=$(python3 -c "import json;print(' '.join(json.load(open('$d/meta.json')).get('also_check',[])))")
  if ! git -C "$REPO_DIR" apply "$PWD/$d/patch.diff" 2>/tmp/apply.err; then echo "$d: patch does not apply: $(head -1 /tmp/apply.err)"; continue; fi
  res=""
  for p in $prop $also; do
    out=$(./check "$p" --tier quick 2>&1); code=$?
    tier=quick
    if [ $code -eq 0 ]; then out=$(./check "$p" --tier thorough 2>&1); code=$?; tier=thorough; fi
    first=$(echo "$out" | grep -A2 '^VIOLATION' | sed -n '2,3p' | tr '\n' ' ' | cut -c1-220)
    n=$(echo "$out" | grep -c '^VIOLATION')
    res="$res [$p:$tier exit=$code violations_listed=$n $first]"
  done
  git -C "$REPO_DIR" checkout -- . ; git -C "$REPO_DIR" clean -fdq -- . 2>/dev/null
  echo "$d:$res"
done
