#!/bin/bash
# tools/run_seeded.sh [-j N] [seed-dir ...]: applies each seeded change to a scratch worktree of /repo
# (never to /repo itself), runs the check(s) of the property it breaks against that tree (quick, then
# thorough if quick is silent; REPO_DIR points the checks at the scratch tree), reverts, and prints one
# line per seed. Seeds of one property run one after the other in the same job (they share
# evidence/<ID>.json); N jobs (default 4) run side by side.
# QUICK_ONLY=1 skips the thorough tier.
# NOTE: the evidence files are overwritten by these mutant runs; re-run ./run_all.sh quick afterwards.
cd "$(dirname "$0")/.."
. ./env.sh
J=4
if [ "${1:-}" = "-j" ]; then J="$2"; shift 2; fi
dirs=("$@"); [ ${#dirs[@]} -eq 0 ] && dirs=(seeded/*/)
props=$(for d in "${dirs[@]}"; do basename "$d" | cut -d_ -f1; done | sort -u)

job() { # $1 = job number
  local SCRATCH="/tmp/seed_scratch_$$_$1"
  git -C /repo worktree add -q --detach "$SCRATCH" HEAD || return 3
  export REPO_DIR="$SCRATCH"
  local k=0
  for P in $props; do
    k=$((k+1)); [ $(( (k-1) % J )) -eq "$1" ] || continue
    for d in "${dirs[@]}"; do
      d="${d%/}"
      [ "$(basename "$d" | cut -d_ -f1)" = "$P" ] || continue
      [ -f "$d/patch.diff" ] || continue
      prop=$(python3 -c "import json;print(json.load(open('$d/meta.json'))['property'])")
      also=$(python3 -c "import json;print(' '.join(json.load(open('$d/meta.json')).get('also_check',[])))")
      if ! git -C "$REPO_DIR" apply "$PWD/$d/patch.diff" 2>"$SCRATCH.err"; then echo "$d: patch does not apply: $(head -1 "$SCRATCH.err")"; continue; fi
      res=""
      for p in $prop $also; do
        out=$(./check "$p" --tier quick 2>&1); code=$?
        tier=quick
        if [ $code -eq 0 ] && [ -z "${QUICK_ONLY:-}" ]; then out=$(./check "$p" --tier thorough 2>&1); code=$?; tier=thorough; fi
        first=$(echo "$out" | grep -A2 '^VIOLATION' | sed -n '2,3p' | tr '\n' ' ' | cut -c1-220)
        n=$(echo "$out" | grep -c '^VIOLATION')
        res="$res [$p:$tier exit=$code violations_listed=$n $first]"
      done
      git -C "$REPO_DIR" checkout -- . ; git -C "$REPO_DIR" clean -fdq -- . 2>/dev/null
      echo "$d:$res"
    done
  done
  git -C /repo worktree remove --force "$SCRATCH" 2>/dev/null; rm -f "$SCRATCH.err"
}
for ((w=0; w<J; w++)); do job $w & done
wait
