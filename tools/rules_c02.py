def cls(e, *names): return e["cell"].get("class") and set(e["cell"]["class"]) <= set(names)
KEEP = ["class", "mode", "addr", "base", "index", "scale", "disp"]
RULES = [
 ("C02-F01", "index without base plus displacement ([EAX*2+1]): calculateModRM picks mod=01/10 from the displacement size and sets SIB.base=101, which under mod!=00 means EBP, so EBP is added to the address (the no-base form needs mod=00 + disp32) - internal/codegen/x86gen_utils.go calculateModRM, SIB section",
  lambda e: cls(e, "index_only") and e["facet"]=="ea" and e["deviation"].startswith("base=extra index=ok scale=ok disp=ok"), KEEP),
 ("C02-F02", "[EBP+index*scale] with no (or zero) displacement: mod stays 00 with SIB.base=101, which means 'no base, disp32 follows': EBP is lost and four zero bytes are appended (a disp8 of 0 is required) - calculateModRM 'mod == 00 && baseNum == 5' branch",
  lambda e: cls(e, "sib_ebp_base") and e["facet"]=="ea" and e["deviation"].startswith("base=lost index=ok scale=ok disp=ok"), KEEP),
 ("C02-F03", "two-register 16-bit addressing ([BX+SI], [BP+DI], and the unencodable [BX+BP]/[SI+DI]/[CX+DX]) in 32-bit mode: calculateModRM only uses the 16-bit table when BITS is 16; in 32-bit mode the 16-bit register names run through the 32-bit SIB path (67h is emitted, the bytes are a 32-bit-style ModRM/SIB) and [CX+DX] is accepted as if it were [ECX+EDX]",
  lambda e: cls(e, "base+index16", "invalid16") and e["cell"].get("mode")==["32"] and e["facet"] in ("ea","len","imm"), KEEP),
 ("C02-F04", "[EAX+EAX] (SIB byte value 0x00): all four callers of calculateModRM append the SIB byte only 'if sibByte != 0', so a SIB byte that is legitimately zero (scale 1, index EAX, base EAX) is dropped and the instruction is one byte short",
  lambda e: cls(e, "sib") and e["cell"].get("base")==["EAX"] and e["cell"].get("index")==["EAX"] and e["facet"]=="decode", KEEP),
]
