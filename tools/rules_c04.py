KEEP = ["mode", "class", "dir", "tk", "n"]
RULES = [
 ("C04-F01", "branch sizing disagrees between the passes: pass 1 (pass1_inst_jmp.go estimateJumpSize/processCalcJcc) assumes 2 bytes for label targets and 3 for numeric targets / CALL in 16-bit mode and 5 (JMP/CALL) or 6 (Jcc) bytes in 32-bit mode; codegen (x86gen_jmp.go handleJcc, x86gen_call.go handleCALL) chooses rel8/rel16/rel32 from the distance alone. Every label behind such a branch is displaced by est-emit",
  lambda e: e["facet"]=="size_estimate", KEEP),
 ("C04-F02", "in 32-bit mode codegen still emits the 16-bit near forms (E9 cw, 0F 8x cw, E8 cw) whenever the distance fits 16 bits: under BITS 32 these bytes decode as rel32 forms that swallow the following bytes, so the branch lands far away",
  lambda e: e["facet"]=="target" and e["deviation"].startswith("off_by:far") and e["cell"].get("mode")==["32"], KEEP),
 ("C04-F03", "the branch target is taken from the pass-1 label table, which is displaced by the branch's own mis-sizing (C04-F01), and the short/near decision is made on the distance measured from the START of the branch (getOffsetSize(relativeOffset)) before the instruction length is subtracted, so displacements just outside -128..127 are truncated to 8 bits or a near form is used where rel8 fits",
  lambda e: e["facet"]=="target" and not (e["deviation"].startswith("off_by:far") and e["cell"].get("mode")==["32"]), KEEP),
]
