#!/usr/bin/env python3
"""tools/summary_counts.py [evidence-dir]: per property, cases / states / transitions summed over the scenarios of the
evidence files (used to fill the summary table of DESIGN.md after a quick and after a thorough run)."""
import json, glob, sys, os
d = sys.argv[1] if len(sys.argv) > 1 else os.path.join(os.path.dirname(os.path.dirname(os.path.abspath(__file__))), "evidence")
for f in sorted(glob.glob(d + "/C*.json")):
    e = json.load(open(f)); c = e["coverage"]
    sc = c.get("scenarios") or []
    cases = sum(s.get("cases", 0) for s in sc)
    print(f"{e['property_id']} tier={e.get('tier')} scenarios={len(sc)} cases={cases} states={c.get('states')} transitions={c.get('transitions')} validated={c.get('traces_validated_against_impl')} exhaustive={c.get('exhaustive')} wall={e.get('wall_s')}")
