import re
def kinds(e): return [m.split("|",2)[2] for m in e["cell"].get("mok", [])]
def allk(e, pred): ks = kinds(e); return bool(ks) and all(pred(k) for k in ks)
isjmp = lambda k: re.match(r"^(J[A-Z]+|CALL) ", k) is not None
SZ = ["mode","form","mn","w","class","disp","carrier","sreg","creg","shape","immclass","imm","dst","src","count","acc","port","reg"]
def scen(e,*n): return e["scenario"] in n
RULES = [
 ("C03-F08", "MOV CRn,r32 / MOV r32,CRn are 0F 20/22 /r (3 bytes); the size estimate (asmdb FindMinOutputSize) yields 2 (same root cause as C03-F04, seen over the whole C01 space)",
  lambda e: scen(e,"size_sreg_creg") and e["facet"]=="size_estimate", SZ),
 ("C03-F09", "PUSH/POP FS/GS counted as 1 byte, PUSH imm16/imm32 counted with the imm8 form (same root causes as C03-F03/F05, seen over the whole C01 space)",
  lambda e: scen(e,"size_stack") and e["facet"]=="size_estimate", SZ),
 ("C03-F10", "IMUL r,imm: pass-1 override assumes the imm8 form / omits the 66h prefix (same root cause as C03-F06, seen over the whole C01 space)",
  lambda e: scen(e,"size_imul") and e["facet"]=="size_estimate", SZ),
 ("C03-F11", "memory forms whose EMISSION is defective (C02-F01 index without base, C02-F02 [EBP+index] without displacement, C02-F04 [EAX+EAX]): the emitted length is wrong (stray disp32 / missing SIB byte), so it disagrees with the pass-1 size",
  lambda e: scen(e,"size_ea") and e["facet"]=="size_estimate", SZ),
 ("C03-F01", "a label inside a memory operand ([lab]) is never resolved: pass 1 passes the name through, ng_operand parses it as displacement 0 and MOV r,[lab] / MOV [lab],r encode address 0 without any diagnostic (only LGDT looks the name up) - internal/codegen/x86gen_mov.go / pkg/ng_operand",
  lambda e: e["facet"]=="label_value" and e["deviation"].endswith(",[lab]:zero"), ["use","mode"]),
 ("C03-F02", "branch sizing: pass 1 (pass1_inst_jmp.go estimateJumpSize/processCalcJcc) assumes 2 bytes (3 for CALL / numeric targets) in 16-bit mode and 5/6 bytes in 32-bit mode, while codegen (x86gen_jmp.go handleJcc, x86gen_call.go handleCALL) picks rel8/rel16/rel32 by distance regardless of mode",
  lambda e: e["scenario"]=="kind_then_label" and e["facet"]=="size_estimate" and allk(e, isjmp), ["mok"]),
 ("C03-F03", "PUSH/POP FS/GS are two-byte opcodes (0F A0/A1/A8/A9) but pass 1 (pass1_inst_pushpop.go) counts 1 byte; INT 3 is counted as 1 byte (CC) by pass1_inst_int.go while handleINT emits CD 03",
  lambda e: e["scenario"]=="kind_then_label" and e["facet"]=="size_estimate" and allk(e, lambda k: k in ("PUSH FS","POP GS","INT 3")), ["mok"]),
 ("C03-F04", "MOV CRn,r32 / MOV r32,CRn are 0F 20/22 /r (3 bytes); the size estimate (asmdb FindMinOutputSize) yields 2",
  lambda e: e["scenario"]=="kind_then_label" and e["facet"]=="size_estimate" and allk(e, lambda k: "CR0" in k), ["mok"]),
 ("C03-F05", "PUSH imm16: pass1_inst_pushpop.go sizes PUSH imm as 2 bytes (imm8 form) unless the value needs more than 16 bits; handlePUSH emits 68 iw / 68 id",
  lambda e: e["scenario"]=="kind_then_label" and e["facet"]=="size_estimate" and allk(e, lambda k: k.startswith("PUSH 0x")), ["mok"]),
 ("C03-F06", "IMUL r,imm: the pass-1 override in pass1_inst_arithmetic.go processIMUL assumes the imm8 form / omits the 66h prefix, handleIMUL emits 69 /r iw|id",
  lambda e: e["scenario"]=="kind_then_label" and e["facet"]=="size_estimate" and allk(e, lambda k: k.startswith("IMUL ")), ["mok"]),
 ("C03-F07", "32-bit addressing: the estimate (pkg/asmdb GetPrefixSize + ng_operand CalcOffsetByteSize/CalcSibByteSize) omits the mandatory disp8 of [EBP], miscounts SIB/disp32 bytes under a 67h prefix in 16-bit mode, and counts the SIB byte that emission drops for [EAX+EAX]; a 16-bit register pair under BITS 32 is emitted through the 32-bit SIB path (C02-F03) with one byte more than sized",
  lambda e: e["scenario"]=="kind_then_label" and e["facet"]=="size_estimate" and allk(e, lambda k: re.search(r"\[E[A-Z]{2}|\[BX\+SI\]", k) is not None), ["mok"]),
]
