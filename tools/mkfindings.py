#!/usr/bin/env python3
"""mkfindings.py PROP proposals.jsonl rules.py  ->  prints findings (jsonl) for the clusters every rule explains.
A rule file defines RULES = [ (id, what, predicate(entry)->bool, keep_features) ... ]; each proposal cluster must be
claimed by exactly one rule, otherwise it is printed to stderr as UNEXPLAINED (and must be looked at by a human).
Clusters claimed by the same rule with the same (scenario-independent) facet+deviation are merged (cells united)."""
import json, sys, importlib.util
prop, pfile, rfile = sys.argv[1:4]
NOMERGE = len(sys.argv) > 4 and sys.argv[4] == "nomerge"
spec = importlib.util.spec_from_file_location("rules", rfile); mod = importlib.util.module_from_spec(spec); spec.loader.exec_module(mod)
out = {}
unexplained = 0
for line in open(pfile):
    e = json.loads(line)
    hits = [r for r in mod.RULES if r[2](e)]
    if len(hits) != 1:
        unexplained += 1
        print("UNEXPLAINED" if not hits else "AMBIGUOUS", e["scenario"], e["facet"], e["deviation"], e["witness"]["case"], e["witness"]["cases"], file=sys.stderr)
        continue
    rid, what, _, keep = hits[0]
    key = (rid, e["facet"], e["deviation"]) if not NOMERGE else (rid, e["facet"], e["deviation"], json.dumps({k: v for k, v in e["cell"].items() if k in keep}, sort_keys=True))
    cell = {k: v for k, v in e["cell"].items() if k in keep}
    if key not in out:
        out[key] = {"kind": "finding", "property": prop, "id": rid, "facet": e["facet"], "deviation": e["deviation"], "cell": cell, "what": what,
                    "witness": {"case": e["witness"]["case"], "src": e["witness"]["srcs"][0] if e["witness"].get("srcs") else "", "observed": e["witness"]["detail"]}}
    else:
        c = out[key]["cell"]
        for k in list(c.keys()):
            if k in cell:
                c[k] = sorted(set(c[k]) | set(cell[k]))
            else:
                del c[k]
n = {}
for key, e in sorted(out.items()):
    rid = key[0]
    n[rid] = n.get(rid, 0) + 1
    if sum(1 for k in out if k[0] == rid) > 1:
        e["id"] = f"{rid}.{n[rid]}"
    print(json.dumps(e, ensure_ascii=False))
print(f"{len(out)} findings, {unexplained} unexplained clusters", file=sys.stderr)
